#!/usr/bin/env python3
# builds the dedicated replay files of the OPEN known findings: for each finding, sample seeds with
# the triggering feature switched on, take the violating seed with the shortest tape for the
# expected coarse signature, minimise it (bin/simcheck -mkreplay) and register it.
import json, os, subprocess, sys, collections
ENV = dict(os.environ, GOFLAGS="-mod=mod", GOPROXY="off", GOSUMDB="off", GOTOOLCHAIN="local")
FINDINGS = [
 # prop, features, coarse signature, name, description
 ("C01", "id-directive,directives", "C01/errors-nonempty", "id-directive",
  "a client-selected `id @skip(if: true)` counts as present, no helper id is added, stitching fails with 'could not find the id'"),
 ("C01", "node-root", "C01/data-missing-key", "node-root",
  "root node(id:) lookups: client-selected id/__typename scrubbed, fields of other services missing"),
 ("C01", "unions,abstract-frags", "C01/data-missing-key", "unions",
  "fields of union members owned by another service are not stitched (whole list pruned)"),
 ("C01", "interfaces,abstract-frags,abstract-frag-meta,typename", "C01/data-unexpected-key", "abstract-frag-meta",
  "a client __typename/id inside one type-conditioned fragment below an interface field makes the helper __typename/id of the other types leak (or the requested one get scrubbed)"),
 ("C01", "interfaces,abstract-cond-frag,inline-fragments,named-fragments", "C01/data-unexpected-key", "abstract-cond-frag",
  "a fragment whose type condition is the interface itself leaks helper id/__typename (scrub fields are registered under the interface name)"),
 ("C01", "frag-directives,directives,inline-fragments", "C01/data-unexpected-key", "frag-directives",
  "@skip/@include on an inline fragment are dropped when the fragment is flattened: excluded fields are returned"),
 ("C02", "var-named-id,variables", "C02/variable-value-lost", "var-named-id",
  "a client variable called id collides with the stitched $id of node lookups"),
 ("C02", "interfaces,abstract-nested", "C02/invalid-subrequest:FieldsOnCorrectType", "abstract-nested",
  "selections below an entity-typed field of an interface are not split by owner: the service receives fields it does not declare"),
 ("C02", "interfaces,abstract-frags", "C02/invalid-subrequest:input", "abstract-frags",
  "interface spread over services with a type-conditioned fragment: the planner emits `... on T { node(id: $id) { ... on T } }` (empty selection, invalid text)"),
]
def sample(prop, feats, n=int(os.environ.get('MKF_N','400')), start=1):
    out = f"/verif/.build/mkf-{prop}.jsonl"
    if os.path.exists(out): os.remove(out)
    subprocess.run(["/verif/.build/sim.test","-test.run","^TestSim$","-test.timeout","0",f"-sim.prop={prop}",f"-sim.from={start}",f"-sim.count={n}",f"-sim.features={feats}",f"-sim.out={out}"],cwd="/verif/sim",stdout=subprocess.DEVNULL,stderr=subprocess.DEVNULL)
    rs=[json.loads(l) for l in open(out)]
    return [r for r in rs if 'prop' in r]
def main():
    only = set(sys.argv[1:])
    kf = json.load(open("known_findings.json"))
    for prop, feats, coarse, name, desc in FINDINGS:
        if only and name not in only: continue
        sig = f"{coarse}:{name}"
        rs = sample(prop, feats)
        cands = sorted([r for r in rs if any(v['signature']==coarse for v in r.get('violations') or [])], key=lambda r:r['tape_used'])
        if not cands:
            print("NO SEED for", name, collections.Counter(v['signature'] for r in rs for v in r.get('violations') or [])); continue
        seed = cands[0]['seed']
        p = subprocess.run(["bin/simcheck","-mkreplay","-p",prop,"-seed",str(seed),"-features",feats,"-finding",name,"-sig",coarse],cwd="/verif",capture_output=True,text=True,env=ENV)
        print(name, "seed", seed, p.stdout.strip().splitlines()[-1:], p.stderr.strip()[-300:])
        replay = f"replays/known-{prop}-{name}.json"
        if not os.path.exists(replay): continue
        kf['findings'] = [f for f in kf['findings'] if f['signature'] != sig]
        kf['findings'].append({"property":prop,"signature":sig,"description":desc,"replay":replay,"status":"open","trigger_features":feats})
    json.dump(kf, open("known_findings.json","w"), indent=1)
main()
