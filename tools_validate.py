#!/usr/bin/env python3
# validates MANIFEST.json and evidence/*.json against the schemas in /root/.vp
import json,sys,glob
sys.path.insert(0,'/opt/veriftools/pyvenv/lib/python3.11/site-packages')
try:
    import jsonschema
except Exception as e:
    print("jsonschema not importable:",e); sys.exit(0)
ok=True
m=json.load(open('MANIFEST.json'))
try:
    jsonschema.validate(m,json.load(open('/root/.vp/MANIFEST.schema.json')))
    print("MANIFEST ok,",len(m['checks']),"checks,",len(m.get('not_applicable',[])),"n/a")
except Exception as e:
    ok=False; print("MANIFEST INVALID",e)
es=json.load(open('/root/.vp/EVIDENCE.schema.json'))
for f in sorted(glob.glob('evidence/*.json')):
    try:
        jsonschema.validate(json.load(open(f)),es); print(f,"ok")
    except Exception as e:
        ok=False; print(f,"INVALID",str(e)[:300])
sys.exit(0 if ok else 1)
