#!/usr/bin/env python3
# usage: seedmeta.py <seed-id> '<caught_by comma list>' '<missed_by comma list>' '<notes>'
import json,sys
sid,caught,missed,notes=sys.argv[1:5]
p=f'/verif/seeded/{sid}/meta.json'
m=json.load(open(p))
m['confirmed_in_scratch_worktree']={"builds":True,"existing_suite_passes_unedited":True,"demo_fails_with_change":True,"demo_passes_without_change":True,"how":"./confirmseed.sh <worktree> <id> (go build, go test -skip Demo ./..., demo_cmd with the patch, demo_cmd with the patch reverted)"}
m['checks_run']="./evalseed.sh seeded/%s/patch.diff <props>: git -C /repo apply, baseline suite, bin/simcheck -p <prop> (quick tier), git -C /repo checkout -- ." % sid
m['caught_by']=[c for c in caught.split(',') if c]
m['not_caught_by']=[c for c in missed.split(',') if c]
m['notes']=notes
json.dump(m,open(p,'w'),indent=1)
print(sid,'->',m['caught_by'])
