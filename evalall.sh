#!/bin/sh
# usage: evalall.sh <seed-id> <prop> [props...]   - confirm a seeded change in its worktree, copy it to seeded/, run the checks
id=$1; shift
cd /verif
./confirmseed.sh /tmp/wt/$id $id 2>&1 | tail -4
rm -f replays/C[0-9]*.json
./evalseed.sh /verif/seeded/$id/patch.diff "$@" 2>&1 | grep -v "^minimised\|further new" | tail -12
rm -f replays/C[0-9]*.json
