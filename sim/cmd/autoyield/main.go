// autoyield instruments a scratch copy of the module under test (see package verif/sim/autoyield).
//
// usage: autoyield <module dir> <module path>
package main

import (
	"fmt"
	"os"

	"verif/sim/autoyield"
)

func main() {
	if len(os.Args) != 3 {
		fmt.Fprintln(os.Stderr, "usage: autoyield <module dir> <module path>")
		os.Exit(2)
	}
	files, sites, err := autoyield.Instrument(os.Args[1], os.Args[2])
	if err != nil {
		fmt.Fprintln(os.Stderr, "autoyield:", err)
		os.Exit(1)
	}
	fmt.Printf("autoyield: %d interleaving points in %d files\n", sites, files)
}
