package main

import "time"

var realFED = []string{"pebbles.NewGateway", "Gateway.Handler (POST)", "merger.ExtendMergerFunc/SanitizeNodeMergerFunc", "planner.SequentialPlanner/CachedPlanner", "executor.ParallelExecutor", "queryer.MultiOpQueryer (Query, chunking, multipart)", "requests.Parse", "gqlerrors", "common.AsyncMapReduce", "gqlparser validation"}
var stubFED = []string{"net/http server (handler called directly, panic recovery emulated)", "TCP (simulated RoundTripper)", "downstream GraphQL services (spec-following executor over generated schema+data)", "introspection.ParallelRemoteSchemaIntrospector (generated service schemas loaded from SDL)"}

var props = map[string]propCfg{
	"C20": {
		Level:     "exploration",
		Technique: "deterministic simulation: seeded schedule search over the yield points of the real AsyncMapReduce, oracle = sequential fold specification + call counters + goroutine ledger",
		Rule:      "a case = (n, per-item success/error/behaviour pattern, reduce-parks flag, schedule); non-trivial when n>=2 and at least 2n scheduler steps were taken; distinct by hash of (pattern, schedule trace)",
		Quick:     tierCfg{Runs: 40000, Budget: 40 * time.Second, Chunk: 1000},
		Thorough:  tierCfg{Runs: 3000000, Budget: 10 * time.Minute, Chunk: 5000, Race: true},
		Real:      []string{"common.AsyncMapReduce (with H1 yield points)", "gqlerrors.ExtendErrorList/FormatError"},
		Stub:      []string{"map and reduce functions are harness functions with their own park points"},
		Assume:    []string{"interleavings are explored at the granularity of the H1 yield points plus the park points inside the harness map/reduce functions; races between statements without a yield between them are only visible to the race detector (thorough tier)"},
	},
	"C11": {
		Level:     "exploration",
		Technique: "deterministic simulation: real MultiOpQueryer on a simulated transport, seeded completion orders of the concurrent chunk calls and of the nested AsyncMapReduce yields, fault injection per chunk call, oracle = sequential specification (N results in request order, each request in exactly one call, <= m per call, error and no partial result on failure)",
		Rule:      "a case = (N, m, file inputs, fault plan, schedule); non-trivial when N>m (the chunk path ran); distinct by hash of (N, m, files, fault plan, schedule trace); coverage_points_distinct = number of distinct (N,m) pairs reached",
		Quick:     tierCfg{Runs: 12000, Budget: 45 * time.Second, Chunk: 500},
		Thorough:  tierCfg{Runs: 600000, Budget: 10 * time.Minute, Chunk: 2000},
		Real:      []string{"queryer.MultiOpQueryer.Query/queryBatch/fetch/fetchFile", "common.AsyncMapReduce", "net/http.Client on the simulated RoundTripper", "mime/multipart encoding"},
		Stub:      []string{"the downstream service is an echo server", "TCP"},
		Assume:    []string{"(N,m) pairs are drawn from the tape, not enumerated in order; the evidence reports how many distinct pairs were reached", "a service answer of the wrong length is not counted as a failing call here (that is C09's fault list)"},
	},
}

var expectedProbes = map[string][]string{
	"C11": {"qry.chunked", "qry.boundary-N=k*m", "qry.boundary-N=k*m+1", "qry.boundary-N=k*m-1", "qry.answers-overtook", "qry.failed-call", "qry.files"},
	"C20": {"amr.errors-and-results", "amr.all-errors", "amr.nested", "amr.empty"},
}
