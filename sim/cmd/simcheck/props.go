package main

import "time"

var realFED = []string{"pebbles.NewGateway", "Gateway.Handler (POST)", "merger.ExtendMergerFunc/SanitizeNodeMergerFunc", "planner.SequentialPlanner/CachedPlanner", "executor.ParallelExecutor", "queryer.MultiOpQueryer (Query, chunking, multipart)", "requests.Parse", "gqlerrors", "common.AsyncMapReduce", "gqlparser validation"}
var stubFED = []string{"net/http server (handler called directly, panic recovery emulated)", "TCP (simulated RoundTripper)", "downstream GraphQL services (spec-following executor over generated schema+data)", "introspection.ParallelRemoteSchemaIntrospector (generated service schemas loaded from SDL)"}

var props = map[string]propCfg{
	"C20": {
		Level:     "exploration",
		Technique: "deterministic simulation: seeded schedule search over the yield points of the real AsyncMapReduce, oracle = sequential fold specification + call counters + goroutine ledger",
		Rule:      "a case = (n, per-item success/error/behaviour pattern, reduce-parks flag, schedule); non-trivial when n>=2 and at least 2n scheduler steps were taken; distinct by hash of (pattern, schedule trace)",
		Quick:     tierCfg{Runs: 40000, Budget: 40 * time.Second, Chunk: 1000},
		Thorough:  tierCfg{Runs: 3000000, Budget: 10 * time.Minute, Chunk: 5000, Race: true},
		Real:      []string{"common.AsyncMapReduce (with H1 yield points)", "gqlerrors.ExtendErrorList/FormatError"},
		Stub:      []string{"map and reduce functions are harness functions with their own park points"},
		Assume:    []string{"interleavings are explored at the granularity of the H1 yield points plus the park points inside the harness map/reduce functions; races between statements without a yield between them are only visible to the race detector (thorough tier)"},
	},
	"C01": {
		Level:     "exploration",
		Technique: "deterministic simulation: real gateway (merge, plan, execute, scrub) over simulated services on a simulated transport, seeded schedule of fan-out workers / answer deliveries / plan-step order, differential oracle = single-server reference executor over the union schema and the same data function",
		Rule:      "a case = (generated world: union schema projected on 1-4 services + data salt, gateway configuration, 1-3 generated operations with variables, schedule); non-trivial when at least one cross-service stitch step was planned and the answer was compared with the reference; distinct by hash of (schemas, data salt, operations, configuration, schedule trace)",
		Quick:     tierCfg{Runs: 6000, Budget: 60 * time.Second, Chunk: 250},
		Thorough:  tierCfg{Runs: 400000, Budget: 12 * time.Minute, Chunk: 1000},
		Real:      realFED, Stub: stubFED,
		Assume:    []string{"generated schemas follow pebbles' documented federation contract (README)", "operation features that hit an open known finding are switched off in the sampled workload and exercised only by that finding's dedicated replay (see known_findings.json and DESIGN.md sec. 9)", "the reference executor and the service executor share code; they share no stitching code with pebbles"},
	},
	"C02": {
		Level:     "exploration",
		Technique: "deterministic simulation: wire invariant evaluated on every sub-request a simulated service receives (gqlparser validation against the service's own schema, variable coercion, effective variable values) plus per-translation coverage/helper bookkeeping check on the recorded plan",
		Rule:      "a case = (world, gateway configuration, operations, schedule) as for C01; non-trivial when a cross-service stitch step was planned and at least one sub-request was validated; distinct by the same hash",
		Quick:     tierCfg{Runs: 6000, Budget: 60 * time.Second, Chunk: 250},
		Thorough:  tierCfg{Runs: 400000, Budget: 12 * time.Minute, Chunk: 1000},
		Real:      realFED, Stub: stubFED,
		Assume:    []string{"validation oracle = gqlparser's validator against the service's own generated schema", "coverage of fields selected under interface/union parents is decided dynamically by C01's comparison, not by the static walk"},
	},
	"C12": {
		Level:     "exploration",
		Technique: "deterministic simulation: counting wrapper at the queryer.Queryer seam records calls per service per client operation; history check against the number of plan levels, duplicate-lookup check inside each call, C01 comparison on the same run",
		Rule:      "a case = (world with long / uneven lists and only 2 entities per type so that repeats are frequent, configuration, operations, schedule); non-trivial when a cross-service stitch step was planned and calls were counted; distinct by the same hash as C01",
		Quick:     tierCfg{Runs: 6000, Budget: 60 * time.Second, Chunk: 250},
		Thorough:  tierCfg{Runs: 400000, Budget: 12 * time.Minute, Chunk: 1000},
		Real:      realFED, Stub: stubFED,
		Assume:    []string{"levels = depths of the recorded plan tree at which a service URL appears"},
	},
	"C13": {
		Level:     "exploration",
		Technique: "deterministic simulation: one operation sent k times to one gateway, each repetition under a freshly drawn schedule policy and plan-step permutation (hook H2), content-keyed service failures in a third of the runs; oracle = all repetitions agree on data, on the multiset of errors and on the multiset of sub-requests per service",
		Rule:      "a case = (world, configuration, one operation, k schedules, poison level); non-trivial when a stitch step was planned, all k repetitions completed and at least two different delivery orders were observed; distinct by hash of (schemas, operation, configuration, schedule trace)",
		Quick:     tierCfg{Runs: 2500, Budget: 60 * time.Second, Chunk: 100},
		Thorough:  tierCfg{Runs: 120000, Budget: 12 * time.Minute, Chunk: 400},
		Real:      realFED, Stub: stubFED,
		Assume:    []string{"Go map iteration inside pebbles cannot be seeded; order dependence that only changes an outcome is detected with probability 1-2^-(k-1) per run by the k-fold repetition"},
	},
	"C08": {
		Level:     "exploration",
		Technique: "deterministic simulation: one batch request to the real gateway under a seeded interleaving of the per-operation workers, twin gateway answering each element alone; content-keyed service failures; oracle = element-wise equality (data, multiset of errors) with the alone twin, and with the reference for valid fault-free elements",
		Rule:      "a case = (world, configuration, batch of 0-6 (thorough 8) elements mixing queries, mutations, introspection, invalid operations, duplicates, poison level, schedule); non-trivial when the batch has >=2 elements and caused downstream requests; distinct by hash of (schemas, element kinds, configuration, schedule trace)",
		Quick:     tierCfg{Runs: 12000, Budget: 60 * time.Second, Chunk: 250},
		Thorough:  tierCfg{Runs: 300000, Budget: 12 * time.Minute, Chunk: 1000, Race: true},
		Real:      realFED, Stub: stubFED,
		Assume:    []string{"elements with an empty query string are not generated (the whole batch is then undecodable, C07's domain)", "introspection elements are compared with their alone twin, not with a model of introspection"},
	},
	"C09": {
		Level:     "fault_enumeration",
		Technique: "deterministic simulation with fault injection: per generated (world, operation) the fault-free run enumerates the downstream call sites, then every fault kind (5 transport, 19 service-answer kinds) x call site (<=5) x batch position (first/middle/last) is executed as its own request on a fixed canonical schedule, alone or with a clean sibling in the same batch, followed by a clean request; process death is caught by the parent",
		Rule:      "evaluations = simulated runs (one world+operation each); a run is non-trivial when the operation has >=2 call sites and >=10 fault cases actually fired and were checked; distinct by hash of (schemas, operation, configuration, number of cases); faults_fired counts cases per kind; oracle_comparisons = fault cases checked",
		Quick:     tierCfg{Runs: 1500, Budget: 60 * time.Second, Chunk: 50},
		Thorough:  tierCfg{Runs: 60000, Budget: 12 * time.Minute, Chunk: 200},
		Real:      realFED, Stub: stubFED,
		Assume:    []string{"single faults are enumerated exhaustively per operation up to 5 call sites / 700 cases; fault sequences are covered only through the sibling/follow-up requests", "a service that never answers is not modelled (pebbles sets no downstream timeout)", "value provenance: every scalar leaf of data must occur in some (possibly faulted) service answer delivered for that operation"},
	},
	"C14": {
		Level:     "exploration",
		Technique: "deterministic simulation: twin gateways (caching planner with TTL 0/1ns/1s/1h vs plain planner) run the same request history drawn from a pool built to collide on the cache key (same selection under another operation type or name, other variable values), singles, batches and overlapping clients, gaps around the TTL on the simulated clock; oracle = request-by-request equality with the plain twin",
		Rule:      "a case = (world with a root field under Query and Mutation in half the runs, TTL, pool, history of 2-8 (thorough 20) steps with gaps, schedule); non-trivial when >=3 requests were compared and downstream requests happened; distinct by hash of (schemas, pool, history, schedule trace)",
		Quick:     tierCfg{Runs: 8000, Budget: 60 * time.Second, Chunk: 200},
		Thorough:  tierCfg{Runs: 200000, Budget: 12 * time.Minute, Chunk: 500, Race: true},
		Real:      realFED, Stub: stubFED,
		Assume:    []string{"subscriptions interleaved with queries are exercised in the C17 scenario (caching planner is one of its configurations), not here"},
	},
	"C11": {
		Level:     "exploration",
		Technique: "deterministic simulation: real MultiOpQueryer on a simulated transport, seeded completion orders of the concurrent chunk calls and of the nested AsyncMapReduce yields, fault injection per chunk call, oracle = sequential specification (N results in request order, each request in exactly one call, <= m per call, error and no partial result on failure)",
		Rule:      "a case = (N, m, file inputs, fault plan, schedule); non-trivial when N>m (the chunk path ran); distinct by hash of (N, m, files, fault plan, schedule trace); coverage_points_distinct = number of distinct (N,m) pairs reached",
		Quick:     tierCfg{Runs: 12000, Budget: 45 * time.Second, Chunk: 500},
		Thorough:  tierCfg{Runs: 600000, Budget: 10 * time.Minute, Chunk: 2000},
		Real:      []string{"queryer.MultiOpQueryer.Query/queryBatch/fetch/fetchFile", "common.AsyncMapReduce", "net/http.Client on the simulated RoundTripper", "mime/multipart encoding"},
		Stub:      []string{"the downstream service is an echo server", "TCP"},
		Assume:    []string{"(N,m) pairs are drawn from the tape, not enumerated in order; the evidence reports how many distinct pairs were reached", "a service answer of the wrong length is not counted as a failing call here (that is C09's fault list)"},
	},
}

var expectedProbes = map[string][]string{
	"C01": {"fed.cross-service-stitch", "fed.stitch-depth>=3", "fed.node-lookup", "fed.answers-overtook", "fed.plan-order-draws", "fed.chunked-downstream-call"},
	"C02": {"fed.cross-service-stitch", "fed.node-lookup", "op.variable", "op.variable-omitted", "op.variable-in-input"},
	"C12": {"fed.cross-service-stitch", "c12.batched-lookups-in-one-call", "c12.same-entity-repeated-in-a-list"},
	"C13": {"det.repetitions", "det.distinct-delivery-orders", "det.errors-nonempty-case", "det.plan-order-draws"},
	"C08": {"bat.failing-and-succeeding-element", "bat.empty-batch", "bat.element:introspection", "bat.element:invalid-syntax", "bat.element:duplicate", "bat.element:mutation", "bat.answers-overtook"},
	"C09": {"flt.call-sites", "flt.cases"},
	"C14": {"cch.same-selection-other-operation-type", "cch.plan-cache-hit", "cch.gap-beyond-ttl", "cch.concurrent-planning"},
	"C11": {"qry.chunked", "qry.boundary-N=k*m", "qry.boundary-N=k*m+1", "qry.boundary-N=k*m-1", "qry.answers-overtook", "qry.failed-call", "qry.files"},
	"C20": {"amr.errors-and-results", "amr.all-errors", "amr.nested", "amr.empty"},
}
