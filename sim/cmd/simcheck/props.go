package main

import "time"

var realFED = []string{"pebbles.NewGateway", "Gateway.Handler (POST)", "merger.ExtendMergerFunc/SanitizeNodeMergerFunc", "planner.SequentialPlanner/CachedPlanner", "executor.ParallelExecutor", "queryer.MultiOpQueryer (Query, chunking, multipart)", "requests.Parse", "gqlerrors", "common.AsyncMapReduce", "gqlparser validation"}
var stubFED = []string{"net/http server (handler called directly, panic recovery emulated)", "TCP (simulated RoundTripper)", "downstream GraphQL services (spec-following executor over generated schema+data)", "introspection.ParallelRemoteSchemaIntrospector (generated service schemas loaded from SDL)"}

var props = map[string]propCfg{
	"C20": {
		Level:     "exploration",
		Technique: "deterministic simulation: seeded schedule search over the yield points of the real AsyncMapReduce, oracle = sequential fold specification + call counters + goroutine ledger",
		Rule:      "a case = (n, per-item success/error/behaviour pattern, reduce-parks flag, schedule); non-trivial when n>=2 and at least 2n scheduler steps were taken; distinct by hash of (pattern, schedule trace)",
		Quick:     tierCfg{Runs: 40000, Budget: 40 * time.Second, Chunk: 1000},
		Thorough:  tierCfg{Runs: 3000000, Budget: 10 * time.Minute, Chunk: 5000, Race: true},
		Real:      []string{"common.AsyncMapReduce (with H1 yield points)", "gqlerrors.ExtendErrorList/FormatError"},
		Stub:      []string{"map and reduce functions are harness functions with their own park points"},
		Assume:    []string{"interleavings are explored at the granularity of the H1 yield points plus the park points inside the harness map/reduce functions; races between statements without a yield between them are only visible to the race detector (thorough tier)"},
	},
}

var expectedProbes = map[string][]string{
	"C20": {"amr.errors-and-results", "amr.all-errors", "amr.nested", "amr.empty"},
}
