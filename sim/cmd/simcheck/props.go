package main

import "time"

var realFED = []string{"pebbles.NewGateway", "Gateway.Handler (POST)", "merger.ExtendMergerFunc/SanitizeNodeMergerFunc", "planner.SequentialPlanner/CachedPlanner", "executor.ParallelExecutor", "queryer.MultiOpQueryer (Query, chunking, multipart)", "requests.Parse", "gqlerrors", "common.AsyncMapReduce", "gqlparser validation"}
var stubFED = []string{"net/http server (handler called directly, panic recovery emulated)", "TCP (simulated RoundTripper)", "downstream GraphQL services (spec-following executor over generated schema+data)", "introspection.ParallelRemoteSchemaIntrospector (generated service schemas loaded from SDL)"}

var props = map[string]propCfg{
	"C20": {
		Level:     "exploration",
		Technique: "deterministic simulation: seeded schedule search over the yield points of the real AsyncMapReduce, oracle = sequential fold specification + call counters + goroutine ledger",
		Rule:      "a case = (n, per-item success/error/behaviour pattern, reduce-parks flag, schedule); non-trivial when n>=2 and at least 2n scheduler steps were taken; distinct by hash of (pattern, schedule trace)",
		Quick:     tierCfg{Runs: 40000, Budget: 40 * time.Second, Chunk: 1000},
		Thorough:  tierCfg{Runs: 3000000, Budget: 10 * time.Minute, Chunk: 5000, Race: true},
		Real:      []string{"common.AsyncMapReduce (with H1 yield points)", "gqlerrors.ExtendErrorList/FormatError"},
		Stub:      []string{"map and reduce functions are harness functions with their own park points"},
		Assume:    []string{"interleavings are explored at the granularity of the H1 yield points plus the park points inside the harness map/reduce functions; races between statements without a yield between them are only visible to the race detector (thorough tier)"},
	},
	"C01": {
		Level:     "exploration",
		Technique: "deterministic simulation: real gateway (merge, plan, execute, scrub) over simulated services on a simulated transport, seeded schedule of fan-out workers / answer deliveries / plan-step order, differential oracle = single-server reference executor over the union schema and the same data function",
		Rule:      "a case = (generated world: union schema projected on 1-4 services + data salt, gateway configuration, 1-3 generated operations with variables, schedule); non-trivial when at least one cross-service stitch step was planned and the answer was compared with the reference; distinct by hash of (schemas, data salt, operations, configuration, schedule trace)",
		Quick:     tierCfg{Runs: 6000, Budget: 60 * time.Second, Chunk: 250},
		Thorough:  tierCfg{Runs: 400000, Budget: 12 * time.Minute, Chunk: 1000},
		Real:      realFED, Stub: stubFED,
		Assume:    []string{"generated schemas follow pebbles' documented federation contract (README)", "operation features that hit an open known finding are switched off in the sampled workload and exercised only by that finding's dedicated replay (see known_findings.json and DESIGN.md sec. 9)", "the reference executor and the service executor share code; they share no stitching code with pebbles"},
	},
	"C02": {
		Level:     "exploration",
		Technique: "deterministic simulation: wire invariant evaluated on every sub-request a simulated service receives (gqlparser validation against the service's own schema, variable coercion, effective variable values) plus per-translation coverage/helper bookkeeping check on the recorded plan",
		Rule:      "a case = (world, gateway configuration, operations, schedule) as for C01; non-trivial when a cross-service stitch step was planned and at least one sub-request was validated; distinct by the same hash",
		Quick:     tierCfg{Runs: 6000, Budget: 60 * time.Second, Chunk: 250},
		Thorough:  tierCfg{Runs: 400000, Budget: 12 * time.Minute, Chunk: 1000},
		Real:      realFED, Stub: stubFED,
		Assume:    []string{"validation oracle = gqlparser's validator against the service's own generated schema", "coverage of fields selected under interface/union parents is decided dynamically by C01's comparison, not by the static walk"},
	},
	"C12": {
		Level:     "exploration",
		Technique: "deterministic simulation: counting wrapper at the queryer.Queryer seam records calls per service per client operation; history check against the number of plan levels, duplicate-lookup check inside each call, C01 comparison on the same run",
		Rule:      "a case = (world with long / uneven lists and only 2 entities per type so that repeats are frequent, configuration, operations, schedule); non-trivial when a cross-service stitch step was planned and calls were counted; distinct by the same hash as C01",
		Quick:     tierCfg{Runs: 6000, Budget: 60 * time.Second, Chunk: 250},
		Thorough:  tierCfg{Runs: 400000, Budget: 12 * time.Minute, Chunk: 1000},
		Real:      realFED, Stub: stubFED,
		Assume:    []string{"levels = depths of the recorded plan tree at which a service URL appears"},
	},
	"C13": {
		Level:     "exploration",
		Technique: "deterministic simulation: one operation sent k times to one gateway, each repetition under a freshly drawn schedule policy and plan-step permutation (hook H2), content-keyed service failures in a third of the runs; oracle = all repetitions agree on data, on the multiset of errors and on the multiset of sub-requests per service",
		Rule:      "a case = (world, configuration, one operation, k schedules, poison level); non-trivial when a stitch step was planned, all k repetitions completed and at least two different delivery orders were observed; distinct by hash of (schemas, operation, configuration, schedule trace)",
		Quick:     tierCfg{Runs: 2500, Budget: 60 * time.Second, Chunk: 100},
		Thorough:  tierCfg{Runs: 120000, Budget: 12 * time.Minute, Chunk: 400},
		Real:      realFED, Stub: stubFED,
		Assume:    []string{"Go map iteration inside pebbles cannot be seeded; order dependence that only changes an outcome is detected with probability 1-2^-(k-1) per run by the k-fold repetition"},
	},
	"C11": {
		Level:     "exploration",
		Technique: "deterministic simulation: real MultiOpQueryer on a simulated transport, seeded completion orders of the concurrent chunk calls and of the nested AsyncMapReduce yields, fault injection per chunk call, oracle = sequential specification (N results in request order, each request in exactly one call, <= m per call, error and no partial result on failure)",
		Rule:      "a case = (N, m, file inputs, fault plan, schedule); non-trivial when N>m (the chunk path ran); distinct by hash of (N, m, files, fault plan, schedule trace); coverage_points_distinct = number of distinct (N,m) pairs reached",
		Quick:     tierCfg{Runs: 12000, Budget: 45 * time.Second, Chunk: 500},
		Thorough:  tierCfg{Runs: 600000, Budget: 10 * time.Minute, Chunk: 2000},
		Real:      []string{"queryer.MultiOpQueryer.Query/queryBatch/fetch/fetchFile", "common.AsyncMapReduce", "net/http.Client on the simulated RoundTripper", "mime/multipart encoding"},
		Stub:      []string{"the downstream service is an echo server", "TCP"},
		Assume:    []string{"(N,m) pairs are drawn from the tape, not enumerated in order; the evidence reports how many distinct pairs were reached", "a service answer of the wrong length is not counted as a failing call here (that is C09's fault list)"},
	},
}

var expectedProbes = map[string][]string{
	"C01": {"fed.cross-service-stitch", "fed.stitch-depth>=3", "fed.node-lookup", "fed.answers-overtook", "fed.plan-order-draws", "fed.chunked-downstream-call"},
	"C02": {"fed.cross-service-stitch", "fed.node-lookup", "op.variable", "op.variable-omitted", "op.variable-in-input"},
	"C12": {"fed.cross-service-stitch", "c12.batched-lookups-in-one-call", "c12.same-entity-repeated-in-a-list"},
	"C13": {"det.repetitions", "det.distinct-delivery-orders", "det.errors-nonempty-case", "det.plan-order-draws"},
	"C11": {"qry.chunked", "qry.boundary-N=k*m", "qry.boundary-N=k*m+1", "qry.boundary-N=k*m-1", "qry.answers-overtook", "qry.failed-call", "qry.files"},
	"C20": {"amr.errors-and-results", "amr.all-errors", "amr.nested", "amr.empty"},
}
