// simcheck is the parent driver: it rebuilds the simulation test binary from /repo's current
// working tree (build tag verif), fans seeds out to child processes, turns abnormal child exits
// (Go panics in spawned goroutines, runtime fatal errors) into violations, minimises the tape of
// every new violation, replays the minimised file in a fresh process and writes the evidence file.
//
// exit 0: property held on everything explored (known findings are listed, not failed)
// exit 1: VIOLATION property=<id> replay=<path>
// exit 2: build trouble, harness anomaly, watchdog, non-reproducible candidate
package main

import (
	"bufio"
	"bytes"
	"encoding/json"
	"flag"
	"fmt"
	"os"
	"os/exec"
	"path/filepath"
	"regexp"
	"sort"
	"strconv"
	"strings"
	"sync"
	"time"

	"verif/sim/tape"
)

type Violation struct {
	Signature string `json:"signature"`
	Detail    string `json:"detail"`
}

type Result struct {
	Prop       string          `json:"prop"`
	Seed       uint64          `json:"seed"`
	Verdict    string          `json:"verdict"`
	Violations []Violation     `json:"violations"`
	Anomaly    string          `json:"anomaly"`
	Nontrivial bool            `json:"nontrivial"`
	Key        string          `json:"key"`
	SchedKey   string          `json:"sched_key"`
	Steps      int             `json:"steps"`
	SimSeconds float64         `json:"sim_seconds"`
	Faults     map[string]int  `json:"faults"`
	Probes     map[string]int  `json:"probes"`
	Classes    map[string]int  `json:"classes"`
	TapeUsed   int             `json:"tape_used"`
	TraceHash  string          `json:"trace_hash"`
	Leaked     []string        `json:"leaked"`
	BubbleLeak bool            `json:"bubble_leak"`
	Sample     json.RawMessage `json:"sample"`
	Trace      []string        `json:"trace"`
	Checks     int             `json:"checks"`
	Crash      string          `json:"crash,omitempty"`
	Cover      []string        `json:"cover"`
	Free       bool            `json:"-"`
	Auto       bool            `json:"-"`
}

type replayFile struct {
	Property  string   `json:"property"`
	Seed      uint64   `json:"seed"`
	Tier      string   `json:"tier"`
	Finding   string   `json:"finding,omitempty"`
	Features  string   `json:"features,omitempty"`
	Free      bool     `json:"free_running,omitempty"`
	Auto      bool     `json:"instrumented_build,omitempty"`
	Signature string   `json:"signature"`
	Detail    string   `json:"detail,omitempty"`
	Sample    any      `json:"workload,omitempty"`
	Trace     []string `json:"schedule_and_fault_trace,omitempty"`
	Tape      []uint32 `json:"tape"`
}

type knownFinding struct {
	Property    string `json:"property"`
	Signature   string `json:"signature"`
	Description string `json:"description"`
	Replay      string `json:"replay"`
	Status      string `json:"status"` // "open" or "fixed: property=<id> <commit> <what failed>"
	// Features switch on the generator features that trigger the finding (they are off in the
	// sampled workload); used by the sampled confirmation run
	Features string `json:"trigger_features"`
	// Free: the finding is a data race seen only by the free-running race-detector phase
	// (thorough tier of the properties that have one); it cannot be confirmed by a tape replay
	Free bool `json:"free_running"`
}

type tierCfg struct {
	Runs   int
	Budget time.Duration
	Chunk  int
	Race   bool
	// AutoShare: percentage of the runs (and of the budget of the scheduled search) that go to
	// the machine-instrumented build (interleaving points before every statement)
	AutoShare int
}

type propCfg struct {
	Level     string
	Technique string
	Rule      string
	Quick     tierCfg
	Thorough  tierCfg
	Real      []string
	Stub      []string
	Assume    []string
}

var root string
var curFinding string

// minimisation budget: quick tier keeps the whole check near its time box
var (
	maxReports   = 6
	shrinkBudget = 90 * time.Second
)

func envGo() []string {
	env := os.Environ()
	env = append(env, "GOFLAGS=-mod=mod", "GOPROXY=off", "GOSUMDB=off", "GOTOOLCHAIN=local", "CGO_ENABLED="+cgo)
	return env
}

var cgo = "0"

// race detector behaviour of child processes: replays stop at the first report; the free-running
// phase lets the process go on (each distinct race is reported once per process) and the parent
// attributes the reports to runs through the SIMRUN markers on stderr
var gorace = "halt_on_error=1 exitcode=66"

func fatal2(format string, args ...any) {
	fmt.Fprintf(os.Stderr, "simcheck: "+format+"\n", args...)
	os.Exit(2)
}

func goBin() string {
	for _, c := range []string{"go1.26.8", "/usr/local/bin/go1.26.8", "/opt/veriftools/go1.26.8/bin/go"} {
		if p, err := exec.LookPath(c); err == nil {
			return p
		}
	}
	fatal2("go1.26.8 not found")
	return ""
}

func build(race bool) string {
	outDir := filepath.Join(root, ".build")
	os.MkdirAll(outDir, 0o755)
	name := "sim.test"
	args := []string{"test", "-c", "-tags", "verif", "-o"}
	if race {
		name = "sim.race.test"
	}
	bin := filepath.Join(outDir, name)
	args = append(args, bin)
	if race {
		args = append(args, "-race")
		cgo = "1"
	}
	args = append(args, ".")
	cmd := exec.Command(goBin(), args...)
	cmd.Dir = filepath.Join(root, "sim")
	cmd.Env = envGo()
	var buf bytes.Buffer
	cmd.Stdout = &buf
	cmd.Stderr = &buf
	start := time.Now()
	if err := cmd.Run(); err != nil {
		fatal2("build of the simulation binary failed (%v):\n%s", err, buf.String())
	}
	fmt.Printf("built %s from /repo working tree in %.1fs\n", name, time.Since(start).Seconds())
	return bin
}

// repoDir is the directory the simulation module takes pebbles from (the replace line of its go.mod).
func repoDir() string {
	b, err := os.ReadFile(filepath.Join(root, "sim", "go.mod"))
	if err != nil {
		return "/repo"
	}
	for _, line := range strings.Split(string(b), "\n") {
		if strings.HasPrefix(strings.TrimSpace(line), "replace github.com/buildbuildio/pebbles") {
			f := strings.Fields(line)
			return f[len(f)-1]
		}
	}
	return "/repo"
}

var autoBuilt string

// buildAuto copies the working tree of the module under test to .build/auto/repo, instruments the
// copy (package autoyield) and builds the simulation binary against it. On failure it returns
// "" and a note: a tree the plain build accepts but the instrumenter or the instrumented build
// does not is reported as an infrastructure problem, never as a violation.
func buildAuto() (string, string) {
	if autoBuilt != "" {
		return autoBuilt, ""
	}
	start := time.Now()
	src := repoDir()
	dir := filepath.Join(root, ".build", "auto")
	dst := filepath.Join(dir, "repo")
	os.RemoveAll(dst)
	err := filepath.Walk(src, func(path string, info os.FileInfo, err error) error {
		if err != nil {
			return err
		}
		rel, _ := filepath.Rel(src, path)
		if info.IsDir() {
			if rel != "." && strings.HasPrefix(info.Name(), ".") {
				return filepath.SkipDir
			}
			return os.MkdirAll(filepath.Join(dst, rel), 0o755)
		}
		if !info.Mode().IsRegular() {
			return nil
		}
		b, err := os.ReadFile(path)
		if err != nil {
			return err
		}
		return os.WriteFile(filepath.Join(dst, rel), b, 0o644)
	})
	if err != nil {
		return "", "instrumented build: copying the tree failed: " + err.Error()
	}
	ay := exec.Command(filepath.Join(root, "bin", "autoyield"), dst, "github.com/buildbuildio/pebbles")
	ay.Env = envGo()
	ayOut, err := ay.CombinedOutput()
	if err != nil {
		return "", "instrumented build: the instrumenter failed (" + err.Error() + "): " + firstLines(string(ayOut), 20)
	}
	gm, err := os.ReadFile(filepath.Join(root, "sim", "go.mod"))
	if err != nil {
		return "", "instrumented build: " + err.Error()
	}
	var lines []string
	for _, line := range strings.Split(string(gm), "\n") {
		if strings.HasPrefix(strings.TrimSpace(line), "replace github.com/buildbuildio/pebbles") {
			line = "replace github.com/buildbuildio/pebbles => " + dst
		}
		lines = append(lines, line)
	}
	modfile := filepath.Join(dir, "go.mod")
	os.WriteFile(modfile, []byte(strings.Join(lines, "\n")), 0o644)
	if gs, err := os.ReadFile(filepath.Join(root, "sim", "go.sum")); err == nil {
		os.WriteFile(filepath.Join(dir, "go.sum"), gs, 0o644)
	}
	bin := filepath.Join(root, ".build", "sim.auto.test")
	cmd := exec.Command(goBin(), "test", "-c", "-tags", "verif", "-modfile="+modfile, "-o", bin, ".")
	cmd.Dir = filepath.Join(root, "sim")
	cmd.Env = envGo()
	var buf bytes.Buffer
	cmd.Stdout = &buf
	cmd.Stderr = &buf
	if err := cmd.Run(); err != nil {
		return "", "instrumented build failed (" + err.Error() + "): " + firstLines(buf.String(), 30)
	}
	fmt.Printf("built sim.auto.test from an instrumented copy of %s (%s) in %.1fs\n", src, strings.TrimSpace(strings.TrimPrefix(string(ayOut), "autoyield:")), time.Since(start).Seconds())
	autoBuilt = bin
	return bin, ""
}

type childOut struct {
	results []Result
	crash   *Result // crash pseudo-result
	stderr  string
	timeout bool
}

var (
	rePanic = regexp.MustCompile(`(?m)^(panic: .*|fatal error: .*)$`)
	reFrame = regexp.MustCompile(`(?m)^\s*(github\.com/buildbuildio/pebbles\S*)`)
	reNum   = regexp.MustCompile(`0x[0-9a-f]+|\b\d+\b`)
	reRace  = regexp.MustCompile(`WARNING: DATA RACE`)
)

// crashSignature classifies an abnormal exit by message class and first pebbles frame of the
// crashing goroutine.
func crashSignature(prop, stderr string) (string, string) {
	if reRace.MatchString(stderr) {
		// the top pebbles frame of each of the two conflicting accesses (the report lists the
		// two access stacks first, then where the goroutines were created)
		report := stderr[strings.Index(stderr, "WARNING: DATA RACE"):]
		if i := strings.Index(report, "\nGoroutine "); i > 0 {
			report = report[:i]
		}
		var fs []string
		for _, part := range strings.Split(report, "\n\n") {
			if f := reFrame.FindStringSubmatch(part); f != nil {
				fs = append(fs, shortFrame(f[1]))
			}
		}
		sort.Strings(fs)
		fs = uniq(fs)
		return prop + "/race:" + strings.Join(fs, "+"), firstLines(stderr[strings.Index(stderr, "WARNING: DATA RACE"):], 70)
	}
	m := rePanic.FindString(stderr)
	if m == "" {
		return prop + "/crash:unknown", firstLines(stderr, 40)
	}
	idx := strings.Index(stderr, m)
	rest := stderr[idx:]
	// the crashing goroutine's stack is the first one after the message
	if j := strings.Index(rest, "\n\ngoroutine "); j >= 0 {
		if k := strings.Index(rest[j+2:], "\n\n"); k >= 0 {
			first := rest[:j+2+k]
			if f := reFrame.FindStringSubmatch(first); f != nil {
				return prop + "/crash:" + msgClass(m) + ":" + shortFrame(f[1]), firstLines(rest, 40)
			}
			if strings.Contains(first, "verif/sim/") {
				// the goroutine that died ran harness code only: not a statement about pebbles
				return prop + "/harness-crash:" + msgClass(m), firstLines(rest, 40)
			}
		}
	}
	frame := "?"
	if f := reFrame.FindStringSubmatch(rest); f != nil {
		frame = shortFrame(f[1])
	}
	return prop + "/crash:" + msgClass(m) + ":" + frame, firstLines(rest, 40)
}

func uniq(in []string) []string {
	seen := map[string]bool{}
	var out []string
	for _, s := range in {
		if !seen[s] {
			seen[s] = true
			out = append(out, s)
		}
	}
	return out
}

func shortFrame(f string) string {
	// cut the argument list: the last "(" that does not open a receiver like (*T)
	for i := len(f) - 1; i >= 0; i-- {
		if f[i] == '(' && (i+1 >= len(f) || f[i+1] != '*') {
			f = f[:i]
			break
		}
	}
	f = strings.TrimPrefix(f, "github.com/buildbuildio/pebbles")
	f = strings.TrimPrefix(f, "/")
	f = strings.TrimPrefix(f, ".")
	f = regexp.MustCompile(`\[\.\.\.\]`).ReplaceAllString(f, "")
	f = regexp.MustCompile(`\.func\d+(\.\d+)*`).ReplaceAllString(f, "")
	return f
}

func msgClass(m string) string {
	m = strings.TrimPrefix(m, "panic: ")
	m = strings.TrimPrefix(m, "fatal error: ")
	m = reNum.ReplaceAllString(m, "N")
	m = strings.Split(m, " [recovered]")[0]
	if i := strings.Index(m, "goroutine "); i > 0 {
		m = m[:i]
	}
	m = strings.TrimSpace(m)
	m = strings.ReplaceAll(m, " ", "-")
	if len(m) > 70 {
		m = m[:70]
	}
	return m
}

func firstLines(s string, n int) string {
	lines := strings.Split(s, "\n")
	if len(lines) > n {
		lines = lines[:n]
	}
	return strings.Join(lines, "\n")
}

func runChild(bin string, args []string, timeout time.Duration) childOut {
	outFile, _ := os.CreateTemp(filepath.Join(root, ".build"), "out-*.jsonl")
	outPath := outFile.Name()
	outFile.Close()
	defer os.Remove(outPath)
	full := append([]string{"-test.run", "^TestSim$", "-test.count", "1", "-test.timeout", "0", "-test.cpu", "4"}, args...)
	full = append(full, "-sim.out="+outPath)
	cmd := exec.Command(bin, full...)
	cmd.Dir = filepath.Join(root, "sim")
	cmd.Env = append(os.Environ(), "GORACE="+gorace)
	var errb bytes.Buffer
	cmd.Stderr = &errb
	cmd.Stdout = &errb
	if err := cmd.Start(); err != nil {
		fatal2("cannot start child: %v", err)
	}
	done := make(chan error, 1)
	go func() { done <- cmd.Wait() }()
	var co childOut
	var werr error
	select {
	case werr = <-done:
	case <-time.After(timeout):
		cmd.Process.Kill()
		<-done
		co.timeout = true
	}
	co.stderr = errb.String()
	f, err := os.Open(outPath)
	var begun uint64
	var haveBegun bool
	ended := false
	if err == nil {
		sc := bufio.NewScanner(f)
		sc.Buffer(make([]byte, 1<<20), 64<<20)
		for sc.Scan() {
			line := sc.Bytes()
			if bytes.HasPrefix(line, []byte(`{"begin"`)) {
				var b struct{ Begin uint64 }
				json.Unmarshal(line, &b)
				begun, haveBegun = b.Begin, true
				continue
			}
			if bytes.HasPrefix(line, []byte(`{"end"`)) {
				ended = true
				continue
			}
			var r Result
			if err := json.Unmarshal(line, &r); err == nil && r.Prop != "" {
				co.results = append(co.results, r)
				haveBegun = false
			}
		}
		f.Close()
	}
	if (werr != nil || co.timeout) && !ended && haveBegun {
		r := Result{Seed: begun, Verdict: "crash"}
		if co.timeout {
			r.Verdict = "timeout"
		}
		co.crash = &r
	} else if werr != nil && !ended {
		co.crash = &Result{Verdict: "childfail"}
	}
	return co
}

type agg struct {
	mu         sync.Mutex
	runs       int
	nontrivial int
	keys       map[string]bool
	scheds     map[string]bool
	steps      int
	simSec     float64
	faults     map[string]int
	probes     map[string]int
	classes    map[string]int
	checks     int
	samples    []json.RawMessage
	viol       map[string][]Result // signature -> results (seeds)
	anomalies  []string
	firstSeed  uint64
	lastSeed   uint64
	crashes    int
	cover      map[string]bool
}

func (a *agg) add(r Result) {
	a.mu.Lock()
	defer a.mu.Unlock()
	a.runs++
	a.steps += r.Steps
	a.simSec += r.SimSeconds
	a.checks += r.Checks
	if r.Nontrivial {
		a.nontrivial++
		a.keys[r.Key] = true
	}
	if r.SchedKey != "" {
		a.scheds[r.SchedKey] = true
	}
	for _, c := range r.Cover {
		a.cover[c] = true
	}
	for k, v := range r.Faults {
		a.faults[k] += v
	}
	for k, v := range r.Probes {
		a.probes[k] += v
	}
	for k, v := range r.Classes {
		a.classes[k] += v
	}
	if len(r.Sample) > 0 && string(r.Sample) != "null" && len(a.samples) < 3 && r.Verdict == "ok" {
		s, _ := json.Marshal(map[string]any{"seed": r.Seed, "verdict": r.Verdict, "steps": r.Steps, "case": r.Sample})
		a.samples = append(a.samples, s)
	}
	switch r.Verdict {
	case "violation":
		for _, v := range r.Violations {
			rr := r
			rr.Violations = []Violation{v}
			a.viol[v.Signature] = append(a.viol[v.Signature], rr)
		}
	case "anomaly":
		a.anomalies = append(a.anomalies, fmt.Sprintf("seed %d: %s", r.Seed, r.Anomaly))
	}
}

func main() {
	var (
		prop     = flag.String("p", "", "property id")
		tier     = flag.String("tier", "", "quick|thorough (default: $VERIF_TIER or quick)")
		replay   = flag.String("replay", "", "replay a file and report")
		runs     = flag.Int("runs", 0, "override number of runs")
		autoPct  = flag.Int("autoshare", -1, "percentage of runs on the machine-instrumented build (default: per tier, 25; 0 switches it off)")
		budget   = flag.Duration("budget", 0, "override wall budget")
		workers  = flag.Int("workers", 16, "child processes")
		features = flag.String("features", "", "feature overrides passed to scenarios")
		noShrink = flag.Bool("noshrink", false, "do not minimise")
		selftest = flag.Bool("determinism", false, "determinism self-test instead of a check")
		listP    = flag.Bool("list", false, "list properties")
		mkReplay = flag.Bool("mkreplay", false, "minimise -seed with -features/-finding and write a replay file for the known-findings list")
		seedF    = flag.Uint64("seed", 0, "seed for -mkreplay")
		finding  = flag.String("finding", "", "finding name for -mkreplay (appended to the signature)")
		sigF     = flag.String("sig", "", "expected coarse signature for -mkreplay")
		race     = flag.Bool("race", false, "force race build")
	)
	flag.Parse()
	var err error
	root, err = os.Getwd()
	if err != nil {
		fatal2("%v", err)
	}
	if _, err := os.Stat(filepath.Join(root, "sim", "go.mod")); err != nil {
		fatal2("run from the /verif directory (no sim/go.mod under %s)", root)
	}
	if *listP {
		for _, k := range sortedKeys(props) {
			fmt.Println(k)
		}
		return
	}
	if *replay != "" {
		os.Exit(doReplay(*replay))
	}
	if *tier == "" {
		*tier = os.Getenv("VERIF_TIER")
	}
	if *tier != "thorough" {
		*tier = "quick"
		maxReports, shrinkBudget = 3, 30*time.Second
	}
	pc, ok := props[*prop]
	if !ok {
		fatal2("unknown property %q", *prop)
	}
	tc := pc.Quick
	if *tier == "thorough" {
		tc = pc.Thorough
	}
	if tc.AutoShare == 0 {
		tc.AutoShare = 25
	}
	if *autoPct >= 0 {
		tc.AutoShare = *autoPct
	}
	if *runs > 0 {
		tc.Runs = *runs
	}
	if *budget > 0 {
		tc.Budget = *budget
	}
	if *race {
		tc.Race = true
	}
	baseSeed := uint64(1)
	if v := os.Getenv("VERIF_SEED"); v != "" {
		if n, err := strconv.ParseUint(v, 10, 64); err == nil {
			baseSeed = n
		}
	}
	fmt.Printf("simcheck property=%s tier=%s VERIF_SEED=%d runs<=%d budget=%s race=%v\n", *prop, *tier, baseSeed, tc.Runs, tc.Budget, tc.Race)
	start := time.Now()
	bin := build(tc.Race)
	if *selftest {
		rc := determinism(bin, *prop, *tier, baseSeed, *features, false)
		if tc.AutoShare > 0 {
			ab, note := buildAuto()
			if ab == "" {
				fmt.Println("INFRA:", note)
				os.Exit(2)
			}
			if r2 := determinism(ab, *prop, *tier, baseSeed, *features, true); r2 != 0 {
				rc = r2
			}
		}
		os.Exit(rc)
	}
	if *mkReplay {
		curFinding = *finding
		sig := *sigF + ":" + *finding
		path, ok := minimise(bin, *prop, *tier, *features, Result{Seed: *seedF}, sig, *noShrink)
		if !ok {
			fatal2("seed %d does not reproduce %s", *seedF, sig)
		}
		dst := filepath.Join(root, "replays", "known-"+*prop+"-"+*finding+".json")
		os.Rename(filepath.Join(root, path), dst)
		fmt.Println("wrote", dst)
		return
	}
	known := loadKnown()
	first := baseSeed * 1000003
	a := &agg{keys: map[string]bool{}, scheds: map[string]bool{}, faults: map[string]int{}, probes: map[string]int{}, classes: map[string]int{}, viol: map[string][]Result{}, firstSeed: first, cover: map[string]bool{}}

	type chunk struct {
		from  uint64
		count int
	}
	var chunks []chunk
	for off := 0; off < tc.Runs; off += tc.Chunk {
		c := tc.Chunk
		if off+c > tc.Runs {
			c = tc.Runs - off
		}
		chunks = append(chunks, chunk{first + uint64(off), c})
	}
	// tiers with Race run two phases: the deterministic search with the plain binary, then a
	// free-running phase (goroutine yields do not park) with the race-detector binary: under the
	// scheduler every access is ordered through the driver's park/release and the detector sees
	// nothing. The free phase is not replayable; a race report is re-run several times instead.
	raceBin := ""
	detBudget := tc.Budget
	if tc.Race {
		raceBin = bin
		bin = build(false)
		detBudget = tc.Budget * 6 / 10
	}
	infra := []string{}
	var imu sync.Mutex
	// one phase of the seeded search: chunks of seeds handed to child processes of phaseBin
	runPhase := func(phaseBin string, extra []string, auto bool, chunks []chunk, deadline time.Time) {
		var wg sync.WaitGroup
		ch := make(chan chunk)
		for w := 0; w < *workers; w++ {
			wg.Add(1)
			go func() {
				defer wg.Done()
				for c := range ch {
					from, count := c.from, c.count
					for count > 0 {
						if time.Now().After(deadline) {
							break
						}
						remain := time.Until(deadline)
						if remain < time.Second {
							break
						}
						args := []string{"-sim.prop=" + *prop, "-sim.tier=" + *tier, fmt.Sprintf("-sim.from=%d", from), fmt.Sprintf("-sim.count=%d", count), "-sim.budget=" + remain.String()}
						if *features != "" {
							args = append(args, "-sim.features="+*features)
						}
						args = append(args, extra...)
						co := runChild(phaseBin, args, remain+60*time.Second)
						for _, r := range co.results {
							r.Auto = auto
							a.add(r)
						}
						if co.crash == nil {
							break
						}
						switch co.crash.Verdict {
						case "crash":
							sig, detail := crashSignature(*prop, co.stderr)
							if strings.HasSuffix(sig, "/race:") {
								// a race report without any pebbles frame is the harness's own
								imu.Lock()
								infra = append(infra, "data race inside the harness: "+firstLines(detail, 25))
								imu.Unlock()
								count = 0
								break
							}
							if strings.Contains(sig, "/harness-crash:") {
								imu.Lock()
								infra = append(infra, fmt.Sprintf("the harness itself crashed on seed %d: %s", co.crash.Seed, firstLines(detail, 25)))
								imu.Unlock()
								done := int(co.crash.Seed-from) + 1
								from += uint64(done)
								count -= done
								break
							}
							r := *co.crash
							r.Prop = *prop
							r.Auto = auto
							r.Verdict = "violation"
							r.Violations = []Violation{{Signature: sig, Detail: detail}}
							r.Crash = detail
							a.mu.Lock()
							a.crashes++
							a.mu.Unlock()
							a.add(r)
							done := int(r.Seed-from) + 1
							from += uint64(done)
							count -= done
						default:
							imu.Lock()
							infra = append(infra, fmt.Sprintf("child %s at seed %d: %s", co.crash.Verdict, co.crash.Seed, firstLines(co.stderr, 30)))
							imu.Unlock()
							count = 0
						}
					}
				}
			}()
		}
		for _, c := range chunks {
			if time.Now().After(deadline) {
				break
			}
			ch <- c
		}
		close(ch)
		wg.Wait()
	}
	// the machine-instrumented build takes the last part of the budget of the scheduled search
	autoBin, autoNote := "", ""
	autoShare := tc.AutoShare
	plainDeadline := start.Add(detBudget)
	if autoShare > 0 {
		autoBin, autoNote = buildAuto()
		if autoBin != "" {
			plainDeadline = start.Add(detBudget * time.Duration(100-autoShare) / 100)
		}
	}
	runPhase(bin, nil, false, chunks, plainDeadline)
	autoRuns := 0
	if autoBin != "" {
		n := tc.Runs * autoShare / 100
		var achunks []chunk
		afirst := first + 500000000
		for off := 0; off < n; off += tc.Chunk {
			c := tc.Chunk
			if off+c > n {
				c = n - off
			}
			achunks = append(achunks, chunk{afirst + uint64(off), c})
		}
		before := a.runs
		autoDeadline := start.Add(detBudget)
		if *tier == "quick" && *autoPct < 0 {
			// the quick tier gives the instrumented build forty seconds
			if d := time.Now().Add(40 * time.Second); d.Before(autoDeadline) {
				autoDeadline = d
			}
		}
		runPhase(autoBin, []string{"-sim.auto"}, true, achunks, autoDeadline)
		autoRuns = a.runs - before
	} else if autoNote != "" {
		infra = append(infra, autoNote)
	}
	a.lastSeed = first + uint64(tc.Runs) - 1
	freeRuns := 0
	if raceBin != "" {
		freeRuns = freePhase(raceBin, *prop, *tier, *features, first+uint64(tc.Runs), start.Add(tc.Budget), *workers, a)
	}

	exit := 0
	if len(infra) > 0 {
		for _, m := range infra {
			fmt.Println("INFRA:", m)
		}
		exit = 2
	}
	if len(a.anomalies) > 0 {
		for i, m := range a.anomalies {
			if i < 10 {
				fmt.Println("HARNESS-ANOMALY:", m)
			}
		}
		exit = 2
	}

	// triage violations
	knownSeen := map[string]int{}
	var newViol []string
	sigs := sortedKeys(a.viol)
	type reported struct {
		sig, path string
	}
	var reports []reported
	nonRepro := 0
	for _, sig := range sigs {
		rs := a.viol[sig]
		sort.Slice(rs, func(i, j int) bool {
			if rs[i].TapeUsed != rs[j].TapeUsed {
				return rs[i].TapeUsed < rs[j].TapeUsed
			}
			return rs[i].Seed < rs[j].Seed
		})
		if kf := matchKnown(known, *prop, sig); kf != nil {
			knownSeen[kf.Signature] += len(rs)
			continue
		}
		newViol = append(newViol, sig)
		if len(reports) >= maxReports {
			continue
		}
		r := rs[0]
		binFor := func(x Result) string {
			if x.Free && raceBin != "" {
				return raceBin
			}
			return bin
		}
		path, ok := minimise(binFor(r), *prop, *tier, *features, r, sig, *noShrink)
		// try other seeds of the same signature
		// (a run that ran into the wall-clock watchdog costs two minutes per attempt: one seed only)
		maxSeeds := 6
		if strings.HasSuffix(sig, "/crash:unknown") {
			maxSeeds = 1
		}
		for k := 1; !ok && k < len(rs) && k < maxSeeds; k++ {
			path, ok = minimise(binFor(rs[k]), *prop, *tier, *features, rs[k], sig, *noShrink)
		}
		if !ok {
			fmt.Printf("NON-REPRODUCIBLE candidate property=%s signature=%s seed=%d (not reported as violation)\n", *prop, sig, r.Seed)
			nonRepro++
			continue
		}
		reports = append(reports, reported{sig, path})
	}
	for _, kf := range known {
		if kf.Property != *prop || !strings.HasPrefix(kf.Status, "open") {
			continue
		}
		if kf.Free {
			// only the free-running race phase can see it
			if raceBin == "" {
				continue
			}
			st := "stale"
			if knownSeen[kf.Signature] > 0 {
				st = "reproduces"
			}
			if st == "reproduces" {
				fmt.Printf("KNOWN-FINDING: property=%s %s [%s] (reported by the race detector in %d free-running runs)\n", kf.Property, kf.Description, kf.Signature, knownSeen[kf.Signature])
			} else {
				fmt.Printf("STALE-FINDING: property=%s signature=%s was not reported by the race detector in this run (repaired, or not reached)\n", kf.Property, kf.Signature)
			}
			continue
		}
		// dedicated confirmation run per open known finding
		st := confirmKnown(bin, kf)
		switch st {
		case "reproduces":
			fmt.Printf("KNOWN-FINDING: property=%s %s [%s] (seen in %d sampled runs; replay %s reproduces)\n", kf.Property, kf.Description, kf.Signature, knownSeen[kf.Signature], kf.Replay)
		case "stale":
			fmt.Printf("STALE-FINDING: property=%s signature=%s no longer reproduces with %s (repaired?)\n", kf.Property, kf.Signature, kf.Replay)
		default:
			fmt.Printf("INFRA: could not run replay %s for known finding %s: %s\n", kf.Replay, kf.Signature, st)
			exit = 2
		}
	}
	for _, rp := range reports {
		fmt.Printf("VIOLATION property=%s replay=%s\n", *prop, rp.path)
		fmt.Printf("  signature=%s\n", rp.sig)
		exit = 1
	}
	if nonRepro > 0 && exit == 0 {
		exit = 2
	}
	if len(newViol) > len(reports)+nonRepro {
		fmt.Printf("(%d further new violation signatures not minimised: %v)\n", len(newViol)-len(reports)-nonRepro, newViol)
	}
	wall := time.Since(start).Seconds()
	writeEvidence(*prop, *tier, baseSeed, pc, tc, a, wall, len(reports), knownSeen, newViol, freeRuns, autoRuns)
	fmt.Printf("runs=%d nontrivial=%d distinct=%d schedules=%d steps=%d crashes=%d wall=%.1fs exit=%d\n", a.runs, a.nontrivial, len(a.keys), len(a.scheds), a.steps, a.crashes, wall, exit)
	if a.runs == 0 && exit == 0 {
		fmt.Println("INFRA: no runs completed")
		exit = 2
	}
	os.Exit(exit)
}

// raceReports splits the stderr of a free-running child into race reports keyed by the seed of
// the run during which they were printed.
func raceReports(stderr string) map[uint64]string {
	out := map[uint64]string{}
	var cur uint64
	var have bool
	var buf []string
	inReport := false
	flush := func() {
		if len(buf) > 0 && have {
			if _, dup := out[cur]; !dup {
				out[cur] = strings.Join(buf, "\n")
			}
		}
		buf = nil
	}
	for _, line := range strings.Split(stderr, "\n") {
		if strings.HasPrefix(line, "SIMRUN ") {
			if !inReport {
				n, err := strconv.ParseUint(strings.TrimPrefix(line, "SIMRUN "), 10, 64)
				if err == nil {
					cur, have = n, true
				}
			}
			continue
		}
		if strings.HasPrefix(line, "WARNING: DATA RACE") {
			flush()
			inReport = true
		}
		if inReport {
			buf = append(buf, line)
			if strings.HasPrefix(line, "==================") && len(buf) > 2 {
				inReport = false
				flush()
			}
		}
	}
	flush()
	return out
}

// freePhase runs seeds in free-running mode with the race binary until the deadline.
func freePhase(bin, prop, tier, features string, from uint64, deadline time.Time, workers int, a *agg) int {
	saved := gorace
	gorace = "halt_on_error=0 exitcode=0"
	defer func() { gorace = saved }()
	var mu sync.Mutex
	next := from
	total := 0
	var wg sync.WaitGroup
	for w := 0; w < workers; w++ {
		wg.Add(1)
		go func() {
			defer wg.Done()
			for time.Until(deadline) > 2*time.Second {
				mu.Lock()
				f := next
				next += 200
				mu.Unlock()
				count := 200
				for count > 0 && time.Until(deadline) > 2*time.Second {
					args := []string{"-sim.prop=" + prop, "-sim.tier=" + tier, "-sim.free", fmt.Sprintf("-sim.from=%d", f), fmt.Sprintf("-sim.count=%d", count), "-sim.budget=" + time.Until(deadline).String()}
					if features != "" {
						args = append(args, "-sim.features="+features)
					}
					co := runChild(bin, args, time.Until(deadline)+60*time.Second)
					mu.Lock()
					total += len(co.results)
					mu.Unlock()
					for _, r := range co.results {
						r.Free = true
						a.add(r)
					}
					// race reports that did not stop the process
					for seed, rep := range raceReports(co.stderr) {
						sig, detail := crashSignature(prop, rep)
						if strings.HasSuffix(sig, "/race:") {
							a.mu.Lock()
							a.anomalies = append(a.anomalies, "data race inside the harness: "+firstLines(detail, 25))
							a.mu.Unlock()
							continue
						}
						a.add(Result{Prop: prop, Seed: seed, Verdict: "violation", Free: true, Crash: detail, Violations: []Violation{{Signature: sig, Detail: detail}}})
					}
					if co.crash == nil || co.crash.Verdict != "crash" {
						break
					}
					sig, detail := crashSignature(prop, co.stderr)
					if strings.Contains(sig, "/harness-crash:") {
						a.mu.Lock()
						a.anomalies = append(a.anomalies, fmt.Sprintf("the harness itself crashed on seed %d (free-running): %s", co.crash.Seed, firstLines(detail, 25)))
						a.mu.Unlock()
						done := int(co.crash.Seed-f) + 1
						f += uint64(done)
						count -= done
						continue
					}
					r := *co.crash
					r.Prop, r.Verdict, r.Free = prop, "violation", true
					r.Violations = []Violation{{Signature: sig, Detail: detail}}
					a.mu.Lock()
					a.crashes++
					a.mu.Unlock()
					a.add(r)
					done := int(r.Seed-f) + 1
					f += uint64(done)
					count -= done
				}
			}
		}()
	}
	wg.Wait()
	return total
}

func sortedKeys[V any](m map[string]V) []string {
	ks := make([]string, 0, len(m))
	for k := range m {
		ks = append(ks, k)
	}
	sort.Strings(ks)
	return ks
}

func loadKnown() []knownFinding {
	b, err := os.ReadFile(filepath.Join(root, "known_findings.json"))
	if err != nil {
		return nil
	}
	var f struct {
		Findings []knownFinding `json:"findings"`
	}
	if err := json.Unmarshal(b, &f); err != nil {
		fatal2("known_findings.json: %v", err)
	}
	return f.Findings
}

func matchKnown(known []knownFinding, prop, sig string) *knownFinding {
	for i := range known {
		k := &known[i]
		if k.Property == prop && k.Signature == sig && strings.HasPrefix(k.Status, "open") {
			return k
		}
	}
	return nil
}

func confirmKnown(bin string, kf knownFinding) string {
	path := kf.Replay
	if !filepath.IsAbs(path) {
		path = filepath.Join(root, path)
	}
	if _, err := os.Stat(path); err != nil {
		return "missing replay file"
	}
	for i := 0; i < 2; i++ {
		sig, _, _, st := runReplay(bin, path)
		if st != "" {
			return st
		}
		if sig[kf.Signature] {
			return "reproduces"
		}
	}
	// a replay is a function of (tape, harness code): after a change to the generators the tape
	// may mean another case. Before calling the finding stale, sample seeds with its triggering
	// features switched on and look for the same signature.
	if kf.Features != "" {
		name := kf.Signature[strings.LastIndex(kf.Signature, ":")+1:]
		co := runChild(bin, []string{"-sim.prop=" + kf.Property, "-sim.from=1", "-sim.count=600", "-sim.features=" + kf.Features, "-sim.finding=" + name}, 120*time.Second)
		for _, r := range co.results {
			for _, v := range r.Violations {
				if v.Signature == kf.Signature {
					return "reproduces"
				}
			}
		}
	}
	return "stale"
}

// runReplay executes a replay file in a fresh child; returns the set of violation signatures.
func runReplay(bin, path string) (map[string]bool, *Result, string, string) {
	if abs, err := filepath.Abs(path); err == nil {
		path = abs // the child runs in another directory
	}
	b, err := os.ReadFile(path)
	if err != nil {
		return nil, nil, "", err.Error()
	}
	var rf replayFile
	if err := json.Unmarshal(b, &rf); err != nil {
		return nil, nil, "", err.Error()
	}
	tf := path + ".trace"
	defer os.Remove(tf)
	if rf.Auto {
		ab, note := buildAuto()
		if ab == "" {
			return nil, nil, "", note
		}
		bin = ab
	}
	co := runChild(bin, []string{"-sim.prop=" + rf.Property, "-sim.replay=" + path, "-sim.trace", "-sim.tracefile=" + tf}, 120*time.Second)
	sigs := map[string]bool{}
	if co.crash != nil {
		switch co.crash.Verdict {
		case "crash":
			sig, detail := crashSignature(rf.Property, co.stderr)
			sigs[sig] = true
			r := &Result{Seed: rf.Seed, Verdict: "violation", Violations: []Violation{{sig, detail}}}
			// the child died: take workload description and schedule from the trace file
			if b, err := os.ReadFile(tf); err == nil {
				for _, line := range strings.Split(string(b), "\n") {
					if strings.HasPrefix(line, "DESCRIBE ") {
						r.Sample = json.RawMessage(strings.TrimPrefix(line, "DESCRIBE "))
					} else if line != "" && len(r.Trace) < 400 {
						r.Trace = append(r.Trace, line)
					}
				}
			}
			return sigs, r, detail, ""
		default:
			return nil, nil, "", "child " + co.crash.Verdict + ": " + firstLines(co.stderr, 20)
		}
	}
	if len(co.results) == 0 {
		return nil, nil, "", "no result from replay: " + firstLines(co.stderr, 20)
	}
	r := co.results[0]
	if r.Verdict == "anomaly" {
		return sigs, &r, "", ""
	}
	for _, v := range r.Violations {
		sigs[v.Signature] = true
	}
	return sigs, &r, "", ""
}

func doReplay(path string) int {
	b, err := os.ReadFile(path)
	if err != nil {
		fatal2("%v", err)
	}
	var rf replayFile
	if err := json.Unmarshal(b, &rf); err != nil {
		fatal2("%v", err)
	}
	pc := props[rf.Property]
	raceB := false
	_ = pc
	if strings.Contains(rf.Signature, "/race:") || rf.Free {
		raceB = true
	}
	bin := build(raceB)
	sigs, r, _, st := runReplay(bin, path)
	if st != "" {
		fatal2("replay failed to run: %s", st)
	}
	if len(sigs) == 0 {
		fmt.Printf("replay of %s: no violation (expected %s)\n", path, rf.Signature)
		return 0
	}
	for s := range sigs {
		fmt.Printf("replay of %s: violation signature=%s\n", path, s)
	}
	if r != nil {
		for _, v := range r.Violations {
			fmt.Printf("  %s\n", v.Detail)
		}
	}
	if sigs[rf.Signature] {
		fmt.Printf("VIOLATION property=%s replay=%s\n", rf.Property, path)
		return 1
	}
	fmt.Printf("replay produced a different signature than recorded (%s)\n", rf.Signature)
	return 1
}

// minimise shrinks the tape of a violating run while the same signature persists, writes the
// replay file and confirms it in a fresh process.
func minimise(bin, prop, tier, features string, r Result, sig string, noShrink bool) (string, bool) {
	n := r.TapeUsed
	if n <= 0 {
		n = 20000
	}
	cur := tape.Raw(r.Seed, n)
	dir := filepath.Join(root, ".build", "shrink")
	os.MkdirAll(dir, 0o755)
	tries := 0
	startT := time.Now()
	var lastRes *Result
	flaky := false
	test := func(tp []uint32) bool {
		tries++
		f, _ := os.CreateTemp(dir, "cand-*.json")
		json.NewEncoder(f).Encode(replayFile{Property: prop, Seed: r.Seed, Tier: tier, Features: features, Finding: curFinding, Free: r.Free, Auto: r.Auto, Tape: tp})
		f.Close()
		defer os.Remove(f.Name())
		// a crash can come from real nondeterminism the change itself introduced (e.g. a select
		// over several closed channels): give crash-class candidates a few attempts
		attempts := 1
		if strings.Contains(sig, "/crash:") || strings.Contains(sig, "/race:") {
			attempts = 4
		}
		if strings.HasSuffix(sig, "/crash:unknown") {
			attempts = 1
		}
		if r.Free {
			attempts = 4
		}
		if r.Auto && attempts < 3 {
			// the code under test iterates over Go maps (runtime order, early exits): a run of the
			// instrumented build can take a slightly different path when repeated
			attempts = 3
		}
		for a := 0; a < attempts; a++ {
			sigs, res, _, st := runReplay(bin, f.Name())
			if st != "" {
				return false
			}
			if sigs[sig] {
				lastRes = res
				if a > 0 {
					flaky = true
				}
				return true
			}
		}
		return false
	}
	// the candidate must reproduce from its tape at all
	if !test(cur) {
		if !test(cur) {
			return "", false
		}
	}
	budgetOK := func() bool { return tries < 400 && time.Since(startT) < shrinkBudget }
	if !noShrink {
		// 1. shortest prefix (zeros beyond)
		lo, hi := 0, len(cur)
		for lo < hi && budgetOK() {
			mid := (lo + hi) / 2
			if test(cur[:mid]) {
				hi = mid
			} else {
				lo = mid + 1
			}
		}
		if hi < len(cur) && test(cur[:hi]) {
			cur = cur[:hi]
		}
		// 2. delete blocks, 3. zero blocks
		for _, bs := range []int{64, 16, 4, 1} {
			for i := 0; i+bs <= len(cur) && budgetOK(); {
				cand := append(append([]uint32{}, cur[:i]...), cur[i+bs:]...)
				if test(cand) {
					cur = cand
					continue
				}
				allZero := true
				for _, v := range cur[i : i+bs] {
					if v != 0 {
						allZero = false
					}
				}
				if !allZero {
					cand = append([]uint32{}, cur...)
					for j := i; j < i+bs; j++ {
						cand[j] = 0
					}
					if test(cand) {
						cur = cand
					}
				}
				i += bs
			}
		}
		// 4. lower single values
		for i := 0; i < len(cur) && budgetOK(); i++ {
			if cur[i] == 0 {
				continue
			}
			for _, v := range []uint32{cur[i] % 2, cur[i] % 4, cur[i] % 16} {
				if v >= cur[i] {
					continue
				}
				cand := append([]uint32{}, cur...)
				cand[i] = v
				if test(cand) {
					cur = cand
					break
				}
			}
		}
		// trailing zeros are implicit
		for len(cur) > 0 && cur[len(cur)-1] == 0 {
			cur = cur[:len(cur)-1]
		}
	}
	os.MkdirAll(filepath.Join(root, "replays"), 0o755)
	safe := regexp.MustCompile(`[^A-Za-z0-9._-]+`).ReplaceAllString(sig, "_")
	if len(safe) > 90 {
		safe = safe[:90]
	}
	path := filepath.Join(root, "replays", fmt.Sprintf("%s-%d.json", safe, r.Seed))
	rf := replayFile{Property: prop, Seed: r.Seed, Tier: tier, Features: features, Finding: curFinding, Free: r.Free, Auto: r.Auto, Signature: sig, Tape: cur}
	// final confirmation in a fresh process, also fills the human readable part
	if !test(cur) {
		return "", false
	}
	if lastRes != nil {
		for _, v := range lastRes.Violations {
			if v.Signature == sig {
				rf.Detail = v.Detail
			}
		}
		if len(lastRes.Sample) > 0 {
			rf.Sample = lastRes.Sample
		}
		rf.Trace = lastRes.Trace
	}
	b, _ := json.MarshalIndent(rf, "", " ")
	os.WriteFile(path, b, 0o644)
	confirmed := false
	for a := 0; a < 5 && !confirmed; a++ {
		sigs, _, _, st := runReplay(bin, path)
		if st == "" && sigs[sig] {
			confirmed = true
		} else if !flaky && !strings.Contains(sig, "/crash:") && !r.Free {
			break
		}
	}
	if !confirmed {
		os.Remove(path)
		return "", false
	}
	if flaky {
		fmt.Printf("note: %s does not reproduce on every attempt (the crash depends on a choice the Go runtime makes, e.g. a select with several ready cases)\n", sig)
	}
	rel, err := filepath.Rel(root, path)
	if err == nil {
		path = rel
	}
	fmt.Printf("minimised %s: tape %d -> %d entries in %d candidate runs\n", sig, n, len(cur), tries)
	return path, true
}

func determinism(bin, prop, tier string, baseSeed uint64, features string, auto bool) int {
	first := baseSeed * 1000003
	if auto {
		first += 500000000
	}
	const seeds = 40
	type key struct {
		seed uint64
	}
	ref := map[uint64]string{}
	bad := 0
	var mu sync.Mutex
	var wg sync.WaitGroup
	sem := make(chan struct{}, 16)
	for rep := 0; rep < 6; rep++ {
		for _, cpu := range []string{"1", "4", "16"} {
			wg.Add(1)
			sem <- struct{}{}
			go func(rep int, cpu string) {
				defer wg.Done()
				defer func() { <-sem }()
				outFile, _ := os.CreateTemp(filepath.Join(root, ".build"), "det-*.jsonl")
				outPath := outFile.Name()
				outFile.Close()
				defer os.Remove(outPath)
				args := []string{"-test.run", "^TestSim$", "-test.cpu", cpu, "-test.timeout", "0", "-sim.prop=" + prop, "-sim.tier=" + tier, fmt.Sprintf("-sim.from=%d", first), fmt.Sprintf("-sim.count=%d", seeds), "-sim.out=" + outPath, "-sim.trace"}
				if features != "" {
					args = append(args, "-sim.features="+features)
				}
				if auto {
					args = append(args, "-sim.auto")
				}
				cmd := exec.Command(bin, args...)
				cmd.Dir = filepath.Join(root, "sim")
				cmd.Env = append(os.Environ(), "GOMAXPROCS="+cpu)
				cmd.Run()
				f, err := os.Open(outPath)
				if err != nil {
					return
				}
				defer f.Close()
				sc := bufio.NewScanner(f)
				sc.Buffer(make([]byte, 1<<20), 64<<20)
				for sc.Scan() {
					var r Result
					if json.Unmarshal(sc.Bytes(), &r) != nil || r.Prop == "" {
						continue
					}
					fp := fmt.Sprintf("%s|%s|%d|%d|%v|%s", r.Verdict, r.TraceHash, r.Steps, r.TapeUsed, r.Violations, strings.Join(r.Trace, "\n"))
					if auto {
						// the code under test iterates over Go maps; the order of those iterations is the
						// runtime's, not the simulator's. In the instrumented build it shows as a permutation
						// of consecutive interleaving points of one goroutine while nothing else is enabled:
						// such stretches are compared as sets (and the trace hash, which is order
						// sensitive, is left out)
						fp = fmt.Sprintf("%s|%d|%d|%v|%s", r.Verdict, r.Steps, r.TapeUsed, r.Violations, strings.Join(canonAutoTrace(r.Trace), "\n"))
					}
					mu.Lock()
					if old, ok := ref[r.Seed]; ok {
						if old != fp {
							bad++
							if bad < 4 {
								fmt.Printf("NONDETERMINISM seed=%d rep=%d cpu=%s\n--- a\n%s\n--- b\n%s\n", r.Seed, rep, cpu, clip(old, 3000), clip(fp, 3000))
							}
						}
					} else {
						ref[r.Seed] = fp
					}
					mu.Unlock()
				}
			}(rep, cpu)
		}
	}
	wg.Wait()
	fmt.Printf("determinism self-test property=%s: %d seeds x 18 processes (GOMAXPROCS 1/4/16), %d divergences\n", prop, len(ref), bad)
	if bad > 0 || len(ref) < seeds/2 {
		return 2
	}
	return 0
}

func clip(s string, n int) string {
	if len(s) > n {
		return s[:n]
	}
	return s
}

func writeEvidence(prop, tier string, seed uint64, pc propCfg, tc tierCfg, a *agg, wall float64, violations int, knownSeen map[string]int, newViol []string, freeRuns, autoRuns int) {
	samples := []json.RawMessage{}
	samples = append(samples, a.samples...)
	if len(samples) == 0 {
		samples = append(samples, json.RawMessage(`"no non-trivial sample kept"`))
	}
	zeroProbes := []string{}
	for _, p := range expectedProbes[prop] {
		if a.probes[p] == 0 {
			zeroProbes = append(zeroProbes, p)
		}
	}
	ev := map[string]any{
		"property_id": prop,
		"tier":        tier,
		"seed":        int64(seed),
		"level":       pc.Level,
		"wall_s":      wall,
		"violations":  violations,
		"assumptions": pc.Assume,
		"coverage": map[string]any{
			"evaluations":                     a.runs,
			"distinct_nontrivial":             len(a.keys),
			"nontrivial_runs":                 a.nontrivial,
			"rule":                            pc.Rule,
			"samples":                         samples,
			"technique":                       pc.Technique,
			"runs_per_hour":                   int(float64(a.runs) / wall * 3600),
			"seeds":                           map[string]any{"first": a.firstSeed, "planned": tc.Runs, "executed": a.runs},
			"simulated_seconds":               a.simSec,
			"scheduler_steps":                 a.steps,
			"oracle_comparisons":              a.checks,
			"faults_fired":                    a.faults,
			"probes":                          a.probes,
			"probes_at_zero":                  zeroProbes,
			"yield_classes_released":          a.classes,
			"distinct_schedules":              len(a.scheds),
			"real_components":                 pc.Real,
			"stub_components":                 pc.Stub,
			"known_findings_seen":             knownSeen,
			"new_violation_signatures":        newViol,
			"child_process_crashes":           a.crashes,
			"race_detector":                   tc.Race,
			"free_running_race_detector_runs": freeRuns,
			"instrumented_build_runs":         autoRuns,
			"coverage_points_distinct":        len(a.cover),
			"exhaustive":                      false,
		},
	}
	os.MkdirAll(filepath.Join(root, "evidence"), 0o755)
	b, _ := json.MarshalIndent(ev, "", " ")
	if err := os.WriteFile(filepath.Join(root, "evidence", prop+".json"), b, 0o644); err != nil {
		fatal2("cannot write evidence: %v", err)
	}
}

// canonAutoTrace is the schedule modulo the order in which one goroutine passes machine-inserted
// points: the sequence of (choice, goroutine or action) as it is, followed by the sorted list of
// (goroutine, point) visits.
func canonAutoTrace(tr []string) []string {
	var seq, visits []string
	for _, l := range tr {
		i := strings.Index(l, "@auto:")
		if i < 0 || !strings.Contains(l[:i], " g:") {
			seq = append(seq, l)
			continue
		}
		seq = append(seq, l[:i]+"@auto")
		j := strings.Index(l, " g:")
		visits = append(visits, l[j+1:])
	}
	sort.Strings(visits)
	return append(seq, visits...)
}
