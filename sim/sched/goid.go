package sched

import (
	"runtime"
)

// goid returns the runtime id of the calling goroutine (parsed from the stack header;
// used only to find the logical identity a goroutine was given by Fork/Start/Enter/Go).
func goid() uint64 {
	var buf [40]byte
	n := runtime.Stack(buf[:], false)
	// "goroutine 123 ["
	var id uint64
	for i := len("goroutine "); i < n; i++ {
		c := buf[i]
		if c < '0' || c > '9' {
			break
		}
		id = id*10 + uint64(c-'0')
	}
	return id
}
