// Package sched is the deterministic scheduler: goroutines of the system under test and of
// the harness park at yield points (simhook in /repo, explicit Park calls in the harness,
// every simulated network operation) and the driver - the root goroutine of a
// testing/synctest bubble - releases exactly one enabled action at a time, chosen from the
// tape. Between two releases the bubble runs to quiescence (synctest.Wait).
package sched

import (
	"context"
	"encoding/json"
	"fmt"
	"hash/fnv"
	"net"
	"os"
	"runtime"
	"sort"
	"strings"
	"sync"
	"testing/synctest"
	"time"

	"verif/sim/tape"
)

// Action is something the driver can do next.
type Action struct {
	ID    string // canonical, unique among enabled actions
	Class string // yield class / action kind, used by policies and statistics
	Fire  func() // executed on the driver goroutine
	// NotBefore is the earliest fake-clock instant at which the action is enabled (zero = now)
	NotBefore time.Time
}

type gor struct {
	id     string
	forks  int
	autoN  map[string]int // visits of this goroutine per live machine-inserted point
	noAuto bool           // a select loop: machine-inserted points do not stop it
}

type parked struct {
	g     *gor
	label string
	key   interface{}
	wake  chan struct{}
	// cond, when set, must hold for the goroutine to be released (it waits for a mutex)
	cond func() bool
}

// Policy decides how the driver picks among enabled actions.
type Policy struct {
	// Deviation n/16: with that probability pick uniformly, otherwise pick the first action in
	// canonical order. 16 = always uniform.
	Deviation int
	// NoSearch lists classes that are released automatically (first in canonical order, no draw).
	NoSearch map[string]bool
	// Prefer: classes that are picked with priority when PreferNum/16 fires.
	Prefer    map[string]bool
	PreferNum int
	// Hold: classes that are not released while any other action is enabled with probability HoldNum/16
	Hold    map[string]bool
	HoldNum int
}

// classes of the keyed yields in /repo's subscription path
var SenderClasses = map[string]bool{"sub.reader.send": true, "sub.reader.done": true, "sub.close.send": true}

const (
	ReceiverSelect = "sub.listen.select"
	ReceiverGone   = "sub.listen.defer"
)

var debugTrace = os.Getenv("SIM_DEBUG_TRACE") != ""

type Sim struct {
	T      *tape.Tape
	Policy Policy

	mu            sync.Mutex
	byGoid        map[uint64]*gor
	tokens        map[uint64]string
	nextTok       uint64
	parked        map[string]*parked
	actions       map[string]*Action
	alive         map[string]int
	labelCnt      map[string]int
	pending       map[string]int
	outstanding   map[interface{}]bool
	outstandingBy map[interface{}]string
	toClear       map[interface{}]bool
	deadKey       map[interface{}]bool
	Held          int
	named         map[uint64]bool
	anon          int
	down          bool

	Steps     int
	Forks     int
	Exits     int
	ClassFire map[string]int
	traceHash uint64
	Trace     []string
	TraceCap  int
	DialFn    func(ctx context.Context, network, addr string) (net.Conn, error)
	// OrderSearch: when true plan-step order is drawn from the tape, else canonical (sorted)
	OrderSearch bool
	OrderDraws  int
	// Anomalies are harness-level consistency problems (never violations)
	Anomalies []string
	// Free switches the scheduler off for goroutine yields (see parkKey)
	Free       bool
	FreeYields int
	// TraceFile, when set, receives every trace line at once (replay mode)
	TraceFile *os.File

	// machine-inserted interleaving points (instrumented build only): a site is live in this run
	// iff hash(site, AutoSalt)%256 < AutoDensity; a goroutine that reaches a live site is preempted
	// there with probability AutoPreempt/256 (a handful of preemptions per run, at many places)
	AutoDensity int
	AutoSalt    uint64
	AutoPreempt int
	AutoParks   int
	AutoVisits  int
	AutoSites   map[string]int
	MutexWaits  int
	MapLoops    int
	mapN        map[string]int
	driver      uint64
	selectLoops map[string]string // identity prefix of a caller -> identity of the select loop (reducer) it started
	amrSent     map[string]int
	amrReduced  map[string]int
	lastG       string
}

func New(t *tape.Tape) *Sim {
	return &Sim{
		T:             t,
		Policy:        Policy{Deviation: 16},
		byGoid:        map[uint64]*gor{},
		tokens:        map[uint64]string{},
		parked:        map[string]*parked{},
		actions:       map[string]*Action{},
		alive:         map[string]int{},
		labelCnt:      map[string]int{},
		pending:       map[string]int{},
		outstanding:   map[interface{}]bool{},
		outstandingBy: map[interface{}]string{},
		toClear:       map[interface{}]bool{},
		deadKey:       map[interface{}]bool{},
		named:         map[uint64]bool{},
		ClassFire:     map[string]int{},
		TraceCap:      400,
		traceHash:     1469598103934665603,
		AutoSites:     map[string]int{},
		amrSent:       map[string]int{},
		amrReduced:    map[string]int{},
		driver:        goid(),
	}
}

// Auto is a machine-inserted interleaving point (simhook.AutoSimulator).
func (s *Sim) Auto(site string) {
	if s.AutoDensity <= 0 {
		return
	}
	h := fnv.New64a()
	h.Write([]byte(site))
	var b [8]byte
	for i := 0; i < 8; i++ {
		b[i] = byte(s.AutoSalt >> (8 * i))
	}
	h.Write(b[:])
	if int(h.Sum64()%256) >= s.AutoDensity {
		return
	}
	id := goid()
	if id == s.driver {
		return
	}
	s.mu.Lock()
	g := s.byGoid[id]
	if g == nil || g.noAuto || s.down || s.Free {
		// goroutines the simulator does not know, and select loops, are left alone
		s.mu.Unlock()
		return
	}
	// whether the goroutine is preempted here is a pure function of (run salt, its logical identity,
	// the site, how often it has been at this site): no draw from the tape - several goroutines
	// can run at once between two driver steps (a send wakes a receiver), the order in which they
	// reach their points must not matter - and no round trip through the driver for the visits
	// that go on
	s.AutoVisits++
	if g.autoN == nil {
		g.autoN = map[string]int{}
	}
	g.autoN[site]++
	n := g.autoN[site]
	hp := fnv.New64a()
	hp.Write(b[:])
	hp.Write([]byte(g.id))
	hp.Write([]byte{byte(n), byte(n >> 8), byte(n >> 16)})
	hp.Write([]byte(site))
	if int(hp.Sum64()>>8%256) >= s.AutoPreempt {
		s.mu.Unlock()
		return
	}
	s.AutoParks++
	s.AutoSites[site]++
	s.mu.Unlock()
	s.park(g, "auto:"+site)
}

// MapOrder is the seam for the iteration order of Go maps in the instrumented copy
// (simhook.MapKeys): a permutation that is a pure function of the run's salt, the goroutine, the
// loop and how often that goroutine has been at it. Nil (sorted order) outside instrumented runs.
func (s *Sim) MapOrder(n int, site string) []int {
	if s.AutoDensity <= 0 || n < 2 {
		return nil
	}
	id := goid()
	s.mu.Lock()
	who := "?"
	if id == s.driver {
		who = "driver"
	} else if g := s.byGoid[id]; g != nil {
		who = g.id
	}
	if s.mapN == nil {
		s.mapN = map[string]int{}
	}
	key := who + "|" + site
	s.mapN[key]++
	k := s.mapN[key]
	s.MapLoops++
	s.mu.Unlock()
	h := fnv.New64a()
	var b [8]byte
	for i := 0; i < 8; i++ {
		b[i] = byte(s.AutoSalt >> (8 * i))
	}
	h.Write(b[:])
	h.Write([]byte(key))
	h.Write([]byte{byte(k), byte(k >> 8), byte(k >> 16)})
	x := h.Sum64() | 1
	next := func() uint64 { // splitmix64
		x += 0x9e3779b97f4a7c15
		z := x
		z = (z ^ (z >> 30)) * 0xbf58476d1ce4e5b9
		z = (z ^ (z >> 27)) * 0x94d049bb133111eb
		return z ^ (z >> 31)
	}
	perm := make([]int, n)
	for i := range perm {
		perm[i] = i
	}
	for i := n - 1; i > 0; i-- {
		j := int(next() % uint64(i+1))
		perm[i], perm[j] = perm[j], perm[i]
	}
	return perm
}

// NoAuto exempts the calling goroutine from machine-inserted points (simhook.SelectLoop).
func (s *Sim) NoAuto() {
	s.mu.Lock()
	if g := s.byGoid[goid()]; g != nil {
		g.noAuto = true
		if i := strings.LastIndex(g.id, "."); i > 0 {
			if s.selectLoops == nil {
				s.selectLoops = map[string]string{}
			}
			s.selectLoops[g.id[:i]] = g.id
		}
	}
	s.mu.Unlock()
}

// WaitFor parks the calling goroutine until cond holds (simhook.AutoSimulator; a mutex that is
// held). cond is evaluated by the driver at quiescence and by the goroutine itself.
func (s *Sim) WaitFor(label string, cond func() bool) {
	id := goid()
	if id == s.driver {
		return
	}
	for {
		s.mu.Lock()
		g := s.byGoid[id]
		if g == nil || s.Free || cond() {
			s.mu.Unlock()
			return
		}
		if s.down {
			// the run is over and the lock is still held: whoever holds it is stuck for good. Stay
			// blocked in a way the bubble understands (a mutex wait is not durable and would stall
			// the end of the bubble)
			s.mu.Unlock()
			select {}
		}
		s.MutexWaits++
		p := &parked{g: g, label: label, cond: cond, wake: make(chan struct{})}
		s.parked[g.id] = p
		s.mu.Unlock()
		<-p.wake
	}
}

func (s *Sim) cur() *gor {
	id := goid()
	g := s.byGoid[id]
	return g
}

func (s *Sim) bind(id string) *gor {
	// make ids unique among alive goroutines
	if s.alive[id] > 0 {
		s.labelCnt[id]++
		id = fmt.Sprintf("%s~%d", id, s.labelCnt[id])
	}
	g := &gor{id: id}
	s.byGoid[goid()] = g
	s.alive[id]++
	return g
}

// ---- simhook.Simulator ----

func (s *Sim) Fork() uint64 {
	s.mu.Lock()
	defer s.mu.Unlock()
	g := s.cur()
	var child string
	if g == nil {
		s.anon++
		child = fmt.Sprintf("anon%d", s.anon)
	} else {
		child = fmt.Sprintf("%s.%d", g.id, g.forks)
		g.forks++
	}
	s.nextTok++
	s.tokens[s.nextTok] = child
	s.Forks++
	return s.nextTok
}

// ForkNamed announces a goroutine whose identity is the given label (made unique, in fork
// order, against goroutines alive or announced under the same label).
func (s *Sim) ForkNamed(label string) uint64 {
	s.mu.Lock()
	defer s.mu.Unlock()
	name := label
	if s.alive[name] > 0 || s.pending[name] > 0 {
		s.labelCnt[label]++
		name = fmt.Sprintf("%s~%d", label, s.labelCnt[label])
	}
	s.pending[name]++
	s.nextTok++
	s.tokens[s.nextTok] = name
	s.named[s.nextTok] = true
	s.Forks++
	return s.nextTok
}

func (s *Sim) Start(tok uint64) {
	s.mu.Lock()
	id, ok := s.tokens[tok]
	if !ok {
		s.anon++
		id = fmt.Sprintf("untok%d", s.anon)
	}
	delete(s.tokens, tok)
	var g *gor
	if s.named[tok] {
		// unique already
		delete(s.named, tok)
		s.pending[id]--
		g = &gor{id: id}
		s.byGoid[goid()] = g
		s.alive[id]++
	} else {
		g = s.bind(id)
	}
	s.mu.Unlock()
	s.park(g, "start")
}

func (s *Sim) Enter(label string) {
	s.mu.Lock()
	s.Forks++
	g := s.bind(label)
	s.mu.Unlock()
	s.park(g, "enter")
}

func (s *Sim) Exit() {
	s.mu.Lock()
	defer s.mu.Unlock()
	id := goid()
	if g := s.byGoid[id]; g != nil {
		delete(s.byGoid, id)
		s.alive[g.id]--
		if s.alive[g.id] <= 0 {
			delete(s.alive, g.id)
		}
		s.Exits++
	}
}

func (s *Sim) Yield(label string) {
	s.mu.Lock()
	g := s.cur()
	if g == nil {
		// a goroutine nobody announced: give it a label-derived identity
		s.Forks++
		g = s.bind("y:" + label)
	}
	s.mu.Unlock()
	s.park(g, label)
}

// YieldOn is Yield with the shared object (a channel) the goroutine is about to use. A Go
// select with two ready cases chooses at random; to keep runs replayable the driver never lets
// two senders be pending on one listener: senders (SenderClasses) with a key that has an
// outstanding sender are not enabled until the receiver (ReceiverClasses, same key) has passed
// its select once more.
func (s *Sim) YieldOn(label string, key interface{}) {
	s.mu.Lock()
	g := s.cur()
	if g == nil {
		s.Forks++
		g = s.bind("y:" + label)
	}
	s.mu.Unlock()
	s.parkKey(g, label, key)
}

func (s *Sim) Order(n int, key func(i int) string) []int {
	idx := make([]int, n)
	for i := range idx {
		idx[i] = i
	}
	sort.SliceStable(idx, func(a, b int) bool { return key(idx[a]) < key(idx[b]) })
	if !s.OrderSearch || n < 2 {
		return idx
	}
	s.mu.Lock()
	p := s.T.Perm(n)
	s.OrderDraws++
	s.mu.Unlock()
	out := make([]int, n)
	for i, j := range p {
		out[i] = idx[j]
	}
	return out
}

func (s *Sim) NetDial() func(ctx context.Context, network, addr string) (net.Conn, error) {
	return s.DialFn
}

// SetPolicy replaces the scheduling policy from a goroutine other than the driver.
func (s *Sim) SetPolicy(p Policy) {
	s.mu.Lock()
	s.Policy = p
	s.mu.Unlock()
}

// Quiet reports whether nothing but waiting harness goroutines (labels "wait-...") and clock ticks
// is left to release: every other goroutine is blocked for good or gone, no delivery is pending.
// For a harness goroutine that wants to look at the system at rest (it is the one that runs).
func (s *Sim) Quiet() bool {
	s.mu.Lock()
	defer s.mu.Unlock()
	for _, p := range s.parked {
		if !strings.HasPrefix(p.label, "wait-") {
			return false
		}
	}
	for _, a := range s.actions {
		if a.Class != "clock.tick" {
			return false
		}
	}
	return true
}

// CurrentID returns the logical identity of the calling goroutine ("" if it has none).
func (s *Sim) CurrentID() string {
	s.mu.Lock()
	defer s.mu.Unlock()
	if g := s.cur(); g != nil {
		return g.id
	}
	return ""
}

// ---- harness side ----

// Go starts a harness goroutine with a canonical identity; it parks before running fn.
func (s *Sim) Go(id string, fn func()) {
	s.mu.Lock()
	s.Forks++
	s.mu.Unlock()
	go func() {
		s.mu.Lock()
		g := s.bind(id)
		s.mu.Unlock()
		defer s.Exit()
		s.park(g, "start")
		fn()
	}()
}

// Park is a yield point for harness code running on a registered goroutine.
func (s *Sim) Park(label string) { s.Yield(label) }

func (s *Sim) park(g *gor, label string) { s.parkKey(g, label, nil) }

func (s *Sim) parkKey(g *gor, label string, key interface{}) {
	s.mu.Lock()
	if s.down || s.Free {
		// free-running mode: goroutines are not parked, only network / script actions stay with the
		// driver. Not replayable; exists so that the race detector can see accesses the scheduler
		// would otherwise order through its own park/release synchronisation.
		if s.Free {
			s.FreeYields++
		}
		free := s.Free
		s.mu.Unlock()
		if free {
			if strings.HasPrefix(label, "wait-") {
				// a harness goroutine polling for others: it must let the bubble come to rest (the
				// driver delivers the network actions the others wait for), a spin would not
				time.Sleep(time.Millisecond)
			} else {
				runtime.Gosched()
			}
		}
		return
	}
	if label == "amr.reduced" {
		if i := strings.LastIndex(g.id, "."); i > 0 {
			s.amrReduced[g.id[:i]]++
		}
	}
	p := &parked{g: g, label: label, key: key, wake: make(chan struct{})}
	if old := s.parked[g.id]; old != nil {
		s.Anomalies = append(s.Anomalies, "double park of "+g.id)
	}
	s.parked[g.id] = p
	s.mu.Unlock()
	<-p.wake
}

// AddAction registers an enabled (or future) driver action.
func (s *Sim) AddAction(a *Action) {
	s.mu.Lock()
	defer s.mu.Unlock()
	if _, dup := s.actions[a.ID]; dup {
		s.labelCnt[a.ID]++
		a.ID = fmt.Sprintf("%s~%d", a.ID, s.labelCnt[a.ID])
	}
	s.actions[a.ID] = a
}

// RemoveAction drops a registered action (no-op if it already fired).
func (s *Sim) RemoveAction(id string) {
	s.mu.Lock()
	defer s.mu.Unlock()
	delete(s.actions, id)
}

// Draw lets harness code that runs on the driver goroutine (or on the single running
// goroutine) draw from the tape under the simulator's lock.
func (s *Sim) Draw(n int) int {
	s.mu.Lock()
	defer s.mu.Unlock()
	return s.T.Choose(n)
}

func (s *Sim) DrawBool(num, den int) bool {
	s.mu.Lock()
	defer s.mu.Unlock()
	return s.T.Bool(num, den)
}

type enabledItem struct {
	id, class string
	p         *parked
	a         *Action
}

func (s *Sim) enabled(now time.Time) (items []enabledItem, nextAt time.Time) {
	for k := range s.toClear {
		delete(s.outstanding, k)
		delete(s.outstandingBy, k)
		delete(s.toClear, k)
	}
	// a sender that has stopped somewhere else, or has ended, has got rid of its item (the channels
	// are unbuffered: the send is over when the listener took it, or - after a change to the code -
	// when it was given up): the next sender may go, also while the listener is still busy
	for k, id := range s.outstandingBy {
		_, stopped := s.parked[id]
		if stopped || s.alive[id] <= 0 {
			delete(s.outstanding, k)
			delete(s.outstandingBy, k)
		}
	}
	// the reducer of an AsyncMapReduce call selects over two channels; a Go select with two ready
	// cases chooses at random, so at most one item is on its way to the reducer at any time: a
	// worker is released into its send only when every earlier send of the call has been taken by
	// the reducer. sent counts releases from amr.send.*, reduced counts the reducer's stops at
	// amr.reduced (one per item, after it); an item is also taken while the reducer is stopped
	// inside the reduce function (reduce.in, C20's scenario). Workers and reducer of one call are
	// children of the caller: same identity prefix.
	inReduce := map[string]bool{}
	for id, p := range s.parked {
		if p.label == "reduce.in" {
			if i := strings.LastIndex(id, "."); i > 0 {
				inReduce[id[:i]] = true
			}
		}
	}
	reducerReady := func(workerID string) bool {
		i := strings.LastIndex(workerID, ".")
		if i <= 0 {
			return true
		}
		pfx := workerID[:i]
		pending := s.amrSent[pfx] - s.amrReduced[pfx]
		if inReduce[pfx] {
			pending--
		}
		return pending <= 0
	}
	for id, p := range s.parked {
		if p.key != nil && SenderClasses[p.label] && s.outstanding[p.key] && !s.deadKey[p.key] {
			s.Held++
			continue
		}
		if (p.label == "amr.send.res" || p.label == "amr.send.err") && !reducerReady(id) {
			continue
		}
		if p.cond != nil && !p.cond() {
			continue
		}
		class := p.label
		if strings.HasPrefix(class, "auto:") {
			class = "auto"
		}
		items = append(items, enabledItem{id: "g:" + id + "@" + p.label, class: class, p: p})
	}
	for id, a := range s.actions {
		if !a.NotBefore.IsZero() && a.NotBefore.After(now) {
			if nextAt.IsZero() || a.NotBefore.Before(nextAt) {
				nextAt = a.NotBefore
			}
			continue
		}
		items = append(items, enabledItem{id: "a:" + id, class: a.Class, a: a})
	}
	if s.AutoDensity > 0 {
		// instrumented build: the canonical order must not depend on where a goroutine stands (the
		// order in which it passes the points inside a loop over a Go map is the runtime's choice)
		key := func(it enabledItem) string {
			if it.p != nil {
				return "g:" + it.p.g.id
			}
			return it.id
		}
		sort.Slice(items, func(i, j int) bool { return key(items[i]) < key(items[j]) })
		return
	}
	sort.Slice(items, func(i, j int) bool { return items[i].id < items[j].id })
	return
}

func (s *Sim) note(line string) {
	h := fnv.New64a()
	var b [8]byte
	for i := 0; i < 8; i++ {
		b[i] = byte(s.traceHash >> (8 * i))
	}
	h.Write(b[:])
	h.Write([]byte(line))
	s.traceHash = h.Sum64()
	if len(s.Trace) < s.TraceCap {
		s.Trace = append(s.Trace, line)
	}
	if s.TraceFile != nil {
		// written before the action is performed: survives the death of the process
		s.TraceFile.WriteString(line + "\n")
	}
}

// Describe records a description of the workload of this run in the trace file (crash replays
// have no result to carry it).
func (s *Sim) Describe(v any) {
	if s.TraceFile == nil {
		return
	}
	b, err := json.Marshal(v)
	if err == nil {
		s.TraceFile.WriteString("DESCRIBE " + string(b) + "\n")
	}
}

// Note adds a harness observation to the trace (part of the determinism fingerprint).
func (s *Sim) Note(format string, args ...any) {
	s.mu.Lock()
	defer s.mu.Unlock()
	s.note(fmt.Sprintf(format, args...))
}

func (s *Sim) TraceHash() uint64 {
	s.mu.Lock()
	defer s.mu.Unlock()
	return s.traceHash
}

// Step waits for quiescence and performs one action. It returns false when nothing is
// enabled now; nextAt is then the instant of the next timed action (zero if none).
func (s *Sim) Step() (did bool, nextAt time.Time) {
	synctest.Wait()
	s.mu.Lock()
	items, nextAt := s.enabled(time.Now())
	if len(items) == 0 {
		s.mu.Unlock()
		return false, nextAt
	}
	pick := -1
	pol := s.Policy
	// classes released automatically
	if pick < 0 && len(pol.NoSearch) > 0 {
		for i, it := range items {
			if pol.NoSearch[it.class] {
				pick = i
				break
			}
		}
	}
	if pick < 0 && len(items) > 1 {
		cand := items
		if len(pol.Hold) > 0 && s.T.Bool(pol.HoldNum, 16) {
			var rest []enabledItem
			for _, it := range items {
				if !pol.Hold[it.class] {
					rest = append(rest, it)
				}
			}
			if len(rest) > 0 {
				cand = rest
			}
		}
		if len(pol.Prefer) > 0 && s.T.Bool(pol.PreferNum, 16) {
			var pref []enabledItem
			for _, it := range cand {
				if pol.Prefer[it.class] {
					pref = append(pref, it)
				}
			}
			if len(pref) > 0 {
				cand = pref
			}
		}
		k := 0
		if pol.Deviation >= 16 || s.T.Bool(pol.Deviation, 16) {
			k = s.T.Choose(len(cand))
		}
		for i := range items {
			if items[i].id == cand[k].id {
				pick = i
				break
			}
		}
	}
	if pick < 0 {
		pick = 0
	}
	it := items[pick]
	s.Steps++
	s.ClassFire[it.class]++
	if debugTrace {
		var ids []string
		for _, x := range items {
			ids = append(ids, x.id)
		}
		s.note(fmt.Sprintf("%d/%d %s  @%s  ENABLED=%v", pick, len(items), it.id, time.Now().Format("15:04:05.000000"), ids))
	} else {
		s.note(fmt.Sprintf("%d/%d %s", pick, len(items), it.id))
	}
	if it.p != nil {
		if k := it.p.key; k != nil {
			switch {
			case SenderClasses[it.p.label]:
				s.outstanding[k] = true
				s.outstandingBy[k] = it.p.g.id
			case it.p.label == ReceiverSelect:
				s.toClear[k] = true
			case it.p.label == ReceiverGone:
				s.deadKey[k] = true
			}
		}
		if it.p.label == "amr.send.res" || it.p.label == "amr.send.err" {
			if i := strings.LastIndex(it.p.g.id, "."); i > 0 {
				s.amrSent[it.p.g.id[:i]]++
			}
		}
		delete(s.parked, it.p.g.id)
		s.lastG = it.p.g.id
		s.mu.Unlock()
		close(it.p.wake)
	} else {
		delete(s.actions, strings.TrimPrefix(it.id, "a:"))
		s.mu.Unlock()
		it.a.Fire()
	}
	return true, nextAt
}

// Result of Run.
type RunEnd int

const (
	Done RunEnd = iota
	Hang
	StepBudget
)

// Run drives the simulation until done() holds. When nothing is enabled the fake clock is
// advanced to the next timed action or by idle quanta until maxIdle of simulated time passed
// without anything becoming enabled - that is a hang.
func (s *Sim) Run(done func() bool, maxSteps int, maxIdle time.Duration) RunEnd {
	idleSince := time.Time{}
	for steps := 0; steps < maxSteps; steps++ {
		synctest.Wait()
		if done() {
			return Done
		}
		did, nextAt := s.Step()
		if did {
			idleSince = time.Time{}
			continue
		}
		now := time.Now()
		if idleSince.IsZero() {
			idleSince = now
		}
		if now.Sub(idleSince) >= maxIdle {
			return Hang
		}
		d := time.Second
		if !nextAt.IsZero() && nextAt.Sub(now) < d {
			d = nextAt.Sub(now)
		}
		if maxIdle <= 0 {
			return Hang
		}
		time.Sleep(d)
		steps--
	}
	return StepBudget
}

// Shutdown releases every parked goroutine and turns all further yields into no-ops, so that
// the bubble can end. Simulated network objects consult Down() to fail fast.
func (s *Sim) Shutdown() {
	s.mu.Lock()
	s.down = true
	ps := s.parked
	s.parked = map[string]*parked{}
	s.actions = map[string]*Action{}
	s.mu.Unlock()
	ids := make([]string, 0, len(ps))
	for id := range ps {
		ids = append(ids, id)
	}
	sort.Strings(ids)
	for _, id := range ids {
		close(ps[id].wake)
	}
}

func (s *Sim) Down() bool {
	s.mu.Lock()
	defer s.mu.Unlock()
	return s.down
}

// Alive lists logical goroutines that started and have not exited.
func (s *Sim) Alive() []string {
	s.mu.Lock()
	defer s.mu.Unlock()
	var out []string
	for id, n := range s.alive {
		if n > 0 {
			out = append(out, id)
		}
	}
	sort.Strings(out)
	return out
}

// ParkedLabels lists "id@label" of goroutines currently parked.
func (s *Sim) ParkedLabels() []string {
	s.mu.Lock()
	defer s.mu.Unlock()
	var out []string
	for id, p := range s.parked {
		out = append(out, id+"@"+p.label)
	}
	sort.Strings(out)
	return out
}
