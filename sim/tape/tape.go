// Package tape is the single source of every random decision of a simulated run.
// A run is a pure function of (code, tape). The raw tape of a fresh run is the PCG stream
// of its seed (so anybody who knows the seed can regenerate it without running anything);
// a draw in [0,n) is raw % n. On replay the recorded raw entries are fed back and every
// draw beyond them is 0, the simplest alternative - this is what makes tape shrinking work.
package tape

import (
	"math/rand/v2"
)

type Tape struct {
	seed   uint64
	rng    *rand.Rand
	replay []uint32
	pos    int
	rec    []uint32
	// forced, when true, makes draws beyond the replay prefix return 0 instead of PRNG values
	forced bool
}

func New(seed uint64) *Tape {
	return &Tape{seed: seed, rng: rand.New(rand.NewPCG(seed, seed^0x9e3779b97f4a7c15))}
}

// Replay returns a tape that feeds back the given entries and then zeros.
func Replay(seed uint64, entries []uint32) *Tape {
	t := New(seed)
	t.replay = entries
	t.forced = true
	return t
}

func (t *Tape) Seed() uint64 { return t.seed }

// Choose returns a value in [0,n). n<=1 returns 0 without consuming an entry.
func (t *Tape) Choose(n int) int {
	if n <= 1 {
		return 0
	}
	var raw uint32
	if t.forced {
		if t.pos < len(t.replay) {
			raw = t.replay[t.pos]
		}
	} else {
		raw = t.rng.Uint32()
	}
	t.pos++
	t.rec = append(t.rec, raw)
	return int(raw % uint32(n))
}

// Bool is true with probability num/den.
func (t *Tape) Bool(num, den int) bool {
	if num <= 0 {
		return false
	}
	if num >= den {
		return true
	}
	// 0 must be the simplest alternative = false, so true is the upper part of the range
	return t.Choose(den) >= den-num
}

// Range returns a value in [lo,hi].
func (t *Tape) Range(lo, hi int) int {
	if hi <= lo {
		return lo
	}
	return lo + t.Choose(hi-lo+1)
}

// Raw regenerates the first n raw entries of the tape of a seed.
func Raw(seed uint64, n int) []uint32 {
	t := New(seed)
	out := make([]uint32, n)
	for i := range out {
		out[i] = t.rng.Uint32()
	}
	return out
}

// Recorded returns the raw entries drawn so far.
func (t *Tape) Recorded() []uint32 { return t.rec }

// Pos is the number of entries drawn so far.
func (t *Tape) Pos() int { return t.pos }

// Perm draws a permutation of n items (Fisher-Yates from the back, all zeros = identity).
func (t *Tape) Perm(n int) []int {
	p := make([]int, n)
	for i := range p {
		p[i] = i
	}
	for i := 0; i < n-1; i++ {
		j := i + t.Choose(n-i)
		p[i], p[j] = p[j], p[i]
	}
	return p
}

// Sub derives an independent tape (not recorded in the parent beyond one draw) - used for
// data that must not shift schedule decisions; it is still a pure function of the parent's state.
func (t *Tape) Sub() *Tape {
	s := uint64(t.Choose(1<<30))<<30 | uint64(t.Choose(1<<30))
	return New(s ^ t.seed)
}
