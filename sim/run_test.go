package sim

import (
	"encoding/json"
	"flag"
	"fmt"
	"os"
	"runtime"
	"strings"
	"testing"
	"testing/synctest"
	"time"

	"github.com/buildbuildio/pebbles/simhook"

	"verif/sim/scen"
	"verif/sim/sched"
	"verif/sim/tape"
)

var (
	fProp      = flag.String("sim.prop", "", "property id")
	fFrom      = flag.Uint64("sim.from", 1, "first seed")
	fCount     = flag.Int("sim.count", 1, "number of seeds")
	fTier      = flag.String("sim.tier", "quick", "quick|thorough")
	fOut       = flag.String("sim.out", "", "jsonl result file (append)")
	fReplay    = flag.String("sim.replay", "", "replay file: JSON {seed,tape}")
	fTrace     = flag.Bool("sim.trace", false, "include the schedule trace in every result")
	fSamples   = flag.Int("sim.samples", 3, "number of results that keep their sample")
	fFinding   = flag.String("sim.finding", "", "known-finding configuration to build")
	fFeat      = flag.String("sim.features", "", "feature overrides")
	fBudget    = flag.Duration("sim.budget", 0, "stop starting new runs after this much wall time")
	fTraceFile = flag.String("sim.tracefile", "", "write the schedule trace line by line to this file (survives a crash)")
	fFree      = flag.Bool("sim.free", false, "free-running mode: goroutine yields do not park (for the race detector; not replayable)")
	fAuto      = flag.Bool("sim.auto", false, "instrumented build: machine-inserted interleaving points are live (density, salt and preemption rate come from the tape)")
	fWatchdog  = flag.Duration("sim.watchdog", 120*time.Second, "wall-clock limit for a single run")
)

type replayFile struct {
	Property string   `json:"property"`
	Seed     uint64   `json:"seed"`
	Tier     string   `json:"tier"`
	Finding  string   `json:"finding,omitempty"`
	Features string   `json:"features,omitempty"`
	Free     bool     `json:"free_running,omitempty"`
	Auto     bool     `json:"instrumented_build,omitempty"`
	Tape     []uint32 `json:"tape"`
}

func runOne(t *testing.T, cfg scen.Config, tp *tape.Tape, seed uint64) (res scen.Result) {
	res.Prop = cfg.Prop
	res.Seed = seed
	res.SigSuffix = cfg.Finding
	sc := scen.Registry[cfg.Prop]
	if sc == nil {
		res.Verdict = "anomaly"
		res.Anomaly = "no scenario for " + cfg.Prop
		return
	}
	var s *sched.Sim
	func() {
		defer func() {
			if r := recover(); r != nil {
				msg := fmt.Sprint(r)
				if strings.Contains(msg, "blocked goroutines remain") {
					res.BubbleLeak = true
					return
				}
				panic(r)
			}
		}()
		synctest.Test(t, func(t *testing.T) {
			s = sched.New(tp)
			s.Free = *fFree
			if *fAuto {
				s.TraceCap = 20000
				// which of the machine-inserted points are live in this run, and how eagerly a
				// goroutine stopped at one is preempted
				s.AutoDensity = []int{32, 128, 256}[tp.Choose(3)]
				s.AutoSalt = uint64(tp.Choose(1 << 30))
				s.AutoPreempt = []int{1, 4, 16}[tp.Choose(3)]
			}
			if *fTraceFile != "" {
				if f, err := os.OpenFile(*fTraceFile, os.O_CREATE|os.O_TRUNC|os.O_WRONLY, 0o644); err == nil {
					s.TraceFile = f
					defer f.Close()
				}
			}
			simhook.Register(s)
			defer simhook.Register(nil)
			start := time.Now()
			func() {
				defer func() {
					if r := recover(); r != nil {
						if hp, ok := r.(scen.HarnessPanic); ok {
							res.Verdict = "anomaly"
							res.Anomaly = string(hp)
							return
						}
						panic(r)
					}
				}()
				sc(s, cfg, &res)
			}()
			res.SimSeconds = time.Since(start).Seconds()
			scen.Finish(s, &res)
			res.Leaked = s.Alive()
			s.Shutdown()
			synctest.Wait()
		})
	}()
	if *fTrace && s != nil {
		res.Trace = s.Trace
	}
	return
}

func TestSim(t *testing.T) {
	if *fProp == "" {
		t.Skip("no -sim.prop")
	}
	cfg := scen.Config{Prop: *fProp, Tier: *fTier, Thorough: *fTier == "thorough", Finding: *fFinding, Features: *fFeat}
	var out *os.File
	if *fOut != "" {
		f, err := os.OpenFile(*fOut, os.O_APPEND|os.O_CREATE|os.O_WRONLY, 0o644)
		if err != nil {
			t.Fatal(err)
		}
		defer f.Close()
		out = f
	} else {
		out = os.Stdout
	}
	emit := func(v any) {
		b, _ := json.Marshal(v)
		b = append(b, '\n')
		out.Write(b)
	}
	if *fReplay != "" {
		b, err := os.ReadFile(*fReplay)
		if err != nil {
			t.Fatal(err)
		}
		var rf replayFile
		if err := json.Unmarshal(b, &rf); err != nil {
			t.Fatal(err)
		}
		if rf.Tier != "" {
			cfg.Tier = rf.Tier
			cfg.Thorough = rf.Tier == "thorough"
		}
		if rf.Finding != "" {
			cfg.Finding = rf.Finding
		}
		if rf.Features != "" {
			cfg.Features = rf.Features
		}
		if rf.Auto {
			*fAuto = true
		}
		if rf.Free {
			*fFree = true
		}
		emit(map[string]any{"begin": rf.Seed})
		wd := time.AfterFunc(*fWatchdog, func() {
			fmt.Fprintf(os.Stderr, "WATCHDOG: replay of seed %d exceeded %s of wall time\n", rf.Seed, *fWatchdog)
			os.Exit(3)
		})
		dl := watchMutexDeadlock(rf.Seed)
		res := runOne(t, cfg, tape.Replay(rf.Seed, rf.Tape), rf.Seed)
		wd.Stop()
		dl.Stop()
		emit(res)
		return
	}
	start := time.Now()
	kept := 0
	for i := 0; i < *fCount; i++ {
		if *fBudget > 0 && time.Since(start) > *fBudget {
			break
		}
		seed := *fFrom + uint64(i)
		emit(map[string]any{"begin": seed})
		if *fFree {
			// lets the parent attribute race reports (which do not stop the process) to a run
			fmt.Fprintf(os.Stderr, "SIMRUN %d\n", seed)
		}
		// wall-clock watchdog per run: a run that does not end is infrastructure trouble (exit 3 ->
		// the parent reports exit 2), never a violation by itself
		wd := time.AfterFunc(*fWatchdog, func() {
			fmt.Fprintf(os.Stderr, "WATCHDOG: run of seed %d exceeded %s of wall time\n", seed, *fWatchdog)
			os.Exit(3)
		})
		// a goroutine of the code under test that waits for a mutex for seconds waits forever (lock
		// holders are never parked in the plain build, and the instrumented build parks lock waiters
		// in the simulator): that is a deadlock in the code under test, reported like a crash
		dl := watchMutexDeadlock(seed)
		var res scen.Result
		if *fFree {
			// under the race detector the testing package fails (and leaves) the test function in
			// which a race was reported: give every run its own sub-test so that the loop goes on
			t.Run(fmt.Sprint(seed), func(st *testing.T) { res = runOne(st, cfg, tape.New(seed), seed) })
			if res.Verdict == "" {
				res.Prop, res.Seed, res.Verdict = cfg.Prop, seed, "ok"
			}
		} else {
			res = runOne(t, cfg, tape.New(seed), seed)
		}
		wd.Stop()
		dl.Stop()
		if res.Verdict == "ok" {
			if !res.Nontrivial || kept >= *fSamples {
				res.Sample = nil
			} else {
				kept++
			}
		}
		emit(res)
	}
	emit(map[string]any{"end": true})
}

// mutexWaiters returns the stacks of goroutines that wait for a sync mutex and have a frame of the
// code under test, keyed by goroutine id.
func mutexWaiters() map[string]string {
	buf := make([]byte, 4<<20)
	n := runtime.Stack(buf, true)
	out := map[string]string{}
	for _, blk := range strings.Split(string(buf[:n]), "\n\n") {
		nl := strings.Index(blk, "\n")
		if nl < 0 {
			continue
		}
		head := blk[:nl]
		if !strings.HasPrefix(head, "goroutine ") || !(strings.Contains(head, "sync.Mutex.Lock") || strings.Contains(head, "sync.RWMutex")) {
			continue
		}
		if !strings.Contains(blk, "github.com/buildbuildio/pebbles") {
			continue
		}
		out[strings.Fields(head)[1]] = blk
	}
	return out
}

type dlWatch struct{ stop chan struct{} }

func (w *dlWatch) Stop() { close(w.stop) }

func watchMutexDeadlock(seed uint64) *dlWatch {
	w := &dlWatch{stop: make(chan struct{})}
	go func() {
		for {
			select {
			case <-w.stop:
				return
			case <-time.After(8 * time.Second):
			}
			first := mutexWaiters()
			if len(first) == 0 {
				continue
			}
			select {
			case <-w.stop:
				return
			case <-time.After(2 * time.Second):
			}
			for id, blk := range mutexWaiters() {
				if _, still := first[id]; still {
					fmt.Fprintf(os.Stderr, "panic: deadlock: a goroutine of the code under test has been waiting for a mutex for seconds (seed %d)\n\n%s\n\n", seed, blk)
					os.Exit(2)
				}
			}
		}
	}()
	return w
}
