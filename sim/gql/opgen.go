package gql

import (
	"fmt"
	"github.com/vektah/gqlparser/v2/formatter"
	"sort"
	"strings"

	"github.com/vektah/gqlparser/v2"
	"github.com/vektah/gqlparser/v2/ast"
	"github.com/vektah/gqlparser/v2/validator"

	"verif/sim/tape"
)

type OpFeatures struct {
	Aliases          bool
	AliasCollide     bool // aliases equal to other field names
	Variables        bool
	VarDefaults      bool
	VarOmitted       bool // nullable variable without value and without default
	VarInInput       bool
	VarNamedID       bool
	VarNamedIDRoot   bool // a variable called id, used only in arguments of root fields
	VarStricter      bool // variable declared non-null at a nullable position
	Directives       bool
	DirectiveVars    bool
	NamedFragments   bool
	InlineFragments  bool
	Typename         bool
	RootTypename     bool
	RootIntrospect   bool // __type(name:) next to data fields at the root of a query
	NodeRoot         bool
	MultiOp          bool
	DupFields        bool
	NullLiterals     bool
	AbstractFrags    bool // type-conditioned fragments on interface/union members
	ExplicitID       bool // client selects id itself (plain, on a level without fragments)
	IDAlias          bool // client-selected id may carry an alias
	IDDirective      bool // client-selected id may carry @skip/@include
	IDWithFragments  bool // client-selected id next to fragments on the same level
	AbstractNested   bool // composite sub-selections below a field of interface/union type
	AbstractCondFrag bool // fragments whose type condition is an interface/union
	AbstractFragMeta bool // id / __typename selected inside a concrete fragment below an abstract field
	FragTwice        bool // one named fragment spread twice in the same selection set
	FragDirectives   bool // @skip/@include on an inline fragment
	FragReuse        bool // a named fragment spread in several places of the operation
}

func DefaultOpFeatures(t *tape.Tape) OpFeatures {
	return OpFeatures{
		Aliases:         t.Bool(1, 2),
		Variables:       t.Bool(1, 2),
		NamedFragments:  t.Bool(1, 3),
		InlineFragments: t.Bool(1, 3),
		Typename:        t.Bool(1, 2),
		AbstractFrags:   t.Bool(3, 4) && false, // open known finding, see DESIGN.md sec. 9
		ExplicitID:      t.Bool(1, 2),
		Directives:      t.Bool(1, 4),
		NullLiterals:    t.Bool(1, 4),
		DupFields:       t.Bool(1, 6),
		VarOmitted:      t.Bool(1, 3),
		VarDefaults:     t.Bool(1, 3),
		DirectiveVars:   t.Bool(1, 2),
		AliasCollide:    t.Bool(1, 4),
		IDAlias:         t.Bool(1, 2),
		FragTwice:       t.Bool(1, 2),
		FragReuse:       t.Bool(1, 2),
		VarNamedIDRoot:  t.Bool(1, 3),
		IDWithFragments: t.Bool(1, 2),
		RootTypename:    t.Bool(1, 3),
		RootIntrospect:  t.Bool(1, 4),
		VarInInput:      t.Bool(1, 3),
		VarStricter:     t.Bool(1, 3),
		MultiOp:         t.Bool(1, 5),
	}
}

type fragRec struct {
	name, typ, key string
}

type varDecl struct {
	name, typ, def string
	hasValue       bool
	value          interface{}
}

type Op struct {
	Kind     ast.Operation
	Text     string
	OpName   *string
	Vars     map[string]interface{}
	Fields   int
	Depth    int
	Doc      *ast.QueryDocument
	Def      *ast.OperationDefinition
	UsedFeat map[string]int
}

type og struct {
	t             *tape.Tape
	w             *World
	schema        *ast.Schema
	f             OpFeatures
	vars          []*varDecl
	frags         []string
	budget        int
	maxD          int
	deep          int
	n             int
	fields        int
	used          map[string]int
	noNull        bool
	underAbstract int
	rootAlias     string
	fragRecs      []fragRec
	lastKey       string
	reuses        int
	argDepth      int // depth of the field whose arguments are being generated
}

func (g *og) mark(s string) { g.used[s]++ }

func (g *og) next(prefix string) string {
	g.n++
	return fmt.Sprintf("%s%d", prefix, g.n)
}

// GenOp draws an operation of the given kind that is valid against schema.
func GenOp(t *tape.Tape, w *World, schema *ast.Schema, kind ast.Operation, f OpFeatures, maxDepth, budget int) *Op {
	return GenOpAliased(t, w, schema, kind, f, maxDepth, budget, "")
}

// GenOpAliased is GenOp with a forced alias on the (single) root field - used to tell
// subscriptions apart on the upstream side.
func GenOpAliased(t *tape.Tape, w *World, schema *ast.Schema, kind ast.Operation, f OpFeatures, maxDepth, budget int, rootAlias string) *Op {
	g := &og{t: t, w: w, schema: schema, f: f, budget: budget, maxD: maxDepth, used: map[string]int{}, rootAlias: rootAlias}
	var root *ast.Definition
	switch kind {
	case ast.Query:
		root = schema.Query
	case ast.Mutation:
		root = schema.Mutation
	case ast.Subscription:
		root = schema.Subscription
	}
	if root == nil {
		return nil
	}
	body := g.rootSel(root, kind)
	name := ""
	if t.Bool(1, 2) || f.MultiOp {
		name = "Op" + fmt.Sprint(1+t.Choose(3))
	}
	var head string
	if len(g.vars) == 0 && name == "" && kind == ast.Query {
		head = ""
	} else {
		head = string(kind)
		if name != "" {
			head += " " + name
		}
		if len(g.vars) > 0 {
			var vs []string
			for _, v := range g.vars {
				s := "$" + v.name + ": " + v.typ
				if v.def != "" {
					s += " = " + v.def
				}
				vs = append(vs, s)
			}
			head += "(" + strings.Join(vs, ", ") + ")"
		}
		head += " "
	}
	text := head + body
	op := &Op{Kind: kind, UsedFeat: g.used}
	if f.MultiOp && name != "" {
		g.mark("multi-op")
		other := "query Other { __typename }"
		if len(schema.Query.Fields) > 0 {
			for _, fd := range schema.Query.Fields {
				if !strings.HasPrefix(fd.Name, "__") && len(fd.Arguments) == 0 && fd.Name != "node" {
					sel := ""
					if d := schema.Types[fd.Type.Name()]; d != nil && (d.Kind == ast.Object || d.Kind == ast.Interface || d.Kind == ast.Union) {
						sel = " { __typename }"
					}
					other = "query Other { " + fd.Name + sel + " }"
					break
				}
			}
		}
		if t.Bool(1, 2) {
			text = other + "\n" + text
		} else {
			text = text + "\n" + other
		}
		op.OpName = &name
	} else if name != "" && t.Bool(1, 2) {
		op.OpName = &name
	}
	if len(g.frags) > 0 {
		text += "\n" + strings.Join(g.frags, "\n")
	}
	op.Text = text
	op.Vars = map[string]interface{}{}
	for _, v := range g.vars {
		if v.hasValue {
			op.Vars[v.name] = v.value
		}
	}
	if len(op.Vars) == 0 && t.Bool(1, 2) {
		op.Vars = nil
	}
	op.Fields = g.fields
	op.Depth = g.deep
	doc, errs := gqlparser.LoadQuery(schema, text)
	if errs != nil {
		panic(HarnessError(fmt.Sprintf("generated operation is invalid: %v\n%s", errs, text)))
	}
	op.Doc = doc
	if op.OpName != nil {
		op.Def = doc.Operations.ForName(*op.OpName)
	} else if len(doc.Operations) == 1 {
		op.Def = doc.Operations[0]
	}
	if op.Def == nil {
		panic(HarnessError("generated operation not selectable:\n" + text))
	}
	if _, err := validator.VariableValues(schema, op.Def, op.Vars); err != nil {
		panic(HarnessError(fmt.Sprintf("generated variables invalid: %v\n%s\n%v", err, text, op.Vars)))
	}
	return op
}

func (g *og) rootSel(root *ast.Definition, kind ast.Operation) string {
	var cands []*ast.FieldDefinition
	var node *ast.FieldDefinition
	for _, fd := range root.Fields {
		if strings.HasPrefix(fd.Name, "__") {
			continue
		}
		if fd.Name == "node" && kind == ast.Query {
			node = fd
			continue
		}
		cands = append(cands, fd)
	}
	used := map[string]bool{}
	var parts []string
	n := 1 + g.t.Choose(3)
	if kind == ast.Subscription {
		n = 1
	}
	if n > len(cands) {
		n = len(cands)
	}
	perm := g.t.Perm(len(cands))
	for i := 0; i < n; i++ {
		parts = append(parts, g.field(root, cands[perm[i]], 1, used))
	}
	if g.f.NodeRoot && node != nil && kind == ast.Query && (g.t.Bool(1, 2) || len(parts) == 0) {
		g.mark("node-root")
		var ents []string
		for _, en := range g.w.kind("entity") {
			// (an entity no field refers to is in no schema)
			if g.schema.Types[en] != nil {
				ents = append(ents, en)
			}
		}
		k := 1 + g.t.Choose(2)
		for i := 0; i < k && len(ents) > 0; i++ {
			en := ents[g.t.Choose(len(ents))]
			id := g.w.EntityID(en, g.t.Choose(g.w.NEntities))
			alias := ""
			if used["node"] {
				alias = g.next("n") + ": "
			}
			used["node"] = true
			inner := map[string]bool{}
			sel := ""
			if g.t.Bool(1, 2) {
				sel += "id "
				inner["id"] = true
			}
			if g.t.Bool(1, 3) {
				sel += "__typename "
				inner["__typename"] = true
			}
			// fragments per type
			m := 1 + g.t.Choose(2)
			for j := 0; j < m; j++ {
				tn := en
				if j > 0 {
					tn = ents[g.t.Choose(len(ents))]
				}
				sel += "... on " + tn + " " + g.selSetInto(g.schema.Types[tn], 2, inner) + " "
			}
			parts = append(parts, fmt.Sprintf("%snode(id: %q) { %s}", alias, id, sel))
			g.fields++
		}
	}
	if len(parts) == 0 {
		parts = append(parts, "__typename")
	}
	if g.f.RootTypename && g.t.Bool(1, 3) && kind != ast.Subscription {
		g.mark("root-typename")
		parts = append(parts, "__typename")
	}
	if g.f.RootIntrospect && g.t.Bool(1, 3) && kind == ast.Query {
		g.mark("root-introspection")
		names := append([]string{"ZzNoSuchType", "Query", "String"}, g.w.Order...)
		parts = append(parts, fmt.Sprintf("zzType: __type(name: %q) { name kind }", names[g.t.Choose(len(names))]))
	}
	return "{ " + strings.Join(parts, " ") + " }"
}

func isComposite(d *ast.Definition) bool {
	return d != nil && (d.Kind == ast.Object || d.Kind == ast.Interface || d.Kind == ast.Union)
}

func (g *og) selSet(typ *ast.Definition, depth int) string {
	return g.selSetInto(typ, depth, map[string]bool{})
}

// selSetInto generates "{ ... }" for a composite type; used holds the response keys of the
// enclosing merge scope.
func (g *og) selSetInto(typ *ast.Definition, depth int, used map[string]bool) string {
	if depth > g.deep {
		g.deep = depth
	}
	var parts []string
	hasID := used["id"] && !g.f.IDWithFragments
	leafOnly := depth >= g.maxD || g.budget <= 0
	abstract := typ.Kind == ast.Interface || typ.Kind == ast.Union
	if (abstract || g.underAbstract > 0) && !g.f.AbstractNested {
		leafOnly = true
	}
	if abstract {
		g.underAbstract++
		defer func() { g.underAbstract-- }()
	}
	var cands []*ast.FieldDefinition
	for _, fd := range typ.Fields {
		if strings.HasPrefix(fd.Name, "__") {
			continue
		}
		if fd.Name == "id" && !g.f.ExplicitID {
			continue
		}
		if fd.Name == "id" && g.underAbstract > 0 && !abstract && !g.f.AbstractFragMeta {
			continue
		}
		if leafOnly && isComposite(g.schema.Types[fd.Type.Name()]) {
			continue
		}
		cands = append(cands, fd)
	}
	if typ.Kind != ast.Union && len(cands) > 0 {
		n := 1 + g.t.Choose(3)
		if g.budget <= 0 {
			n = 1
		}
		if n > len(cands) {
			n = len(cands)
		}
		perm := g.t.Perm(len(cands))
		var chosen []*ast.FieldDefinition
		for i := 0; i < n; i++ {
			chosen = append(chosen, cands[perm[i]])
			if cands[perm[i]].Name == "id" {
				hasID = true
			}
		}
		noFrag := hasID && !g.f.IDWithFragments
		for i, fd := range chosen {
			s := g.field(typ, fd, depth, used)
			// wrap in fragments
			if noFrag || (abstract && !g.f.AbstractCondFrag) {
			} else if g.f.InlineFragments && g.t.Bool(1, 5) {
				g.mark("inline-fragment")
				dir := ""
				if g.f.Directives && g.f.FragDirectives && g.t.Bool(1, 4) && typ.Name != "Mutation" && typ.Name != "Subscription" {
					g.mark("fragment-directive")
					dir = " " + g.directive()
				}
				if g.t.Bool(1, 2) {
					s = "... on " + typ.Name + dir + " { " + s + " }"
				} else {
					s = "..." + dir + " { " + s + " }"
				}
			} else if g.f.NamedFragments && g.t.Bool(1, 5) && len(g.frags) < 3 {
				g.mark("named-fragment")
				fn := g.next("F")
				g.frags = append(g.frags, "fragment "+fn+" on "+typ.Name+" { "+s+" }")
				g.fragRecs = append(g.fragRecs, fragRec{name: fn, typ: typ.Name, key: g.lastKey})
				s = "..." + fn
				if g.f.FragTwice && g.t.Bool(1, 4) {
					g.mark("fragment-spread-twice")
					s += " ..." + fn // used twice
				}
			}
			parts = append(parts, s)
			if g.f.DupFields && i == 0 && len(fd.Arguments) == 0 && !isComposite(g.schema.Types[fd.Type.Name()]) && g.t.Bool(1, 4) && !strings.HasPrefix(s, "...") && !strings.Contains(s, ":") && !strings.Contains(s, "@") {
				g.mark("dup-field")
				parts = append(parts, fd.Name)
			}
		}
	}
	if typ.Kind == ast.Interface || typ.Kind == ast.Union {
		pts := g.schema.GetPossibleTypes(typ)
		sort.Slice(pts, func(i, j int) bool { return pts[i].Name < pts[j].Name })
		if (g.f.AbstractFrags || typ.Kind == ast.Union) && len(pts) > 0 && !leafOnlyStrict(depth, g) && !(hasID && !g.f.IDWithFragments) {
			for _, pt := range pts {
				if g.t.Bool(2, 3) || (typ.Kind == ast.Union && len(parts) == 0 && pt == pts[len(pts)-1]) {
					g.mark("abstract-fragment")
					inner := g.selSetInto(pt, depth, used)
					parts = append(parts, "... on "+pt.Name+" "+inner)
				}
			}
		}
	}
	// a named fragment defined elsewhere in the operation, spread again here
	if g.f.FragReuse && g.reuses < 3 && !abstract && g.underAbstract == 0 && !(hasID && !g.f.IDWithFragments) {
		for _, fr := range g.fragRecs {
			if fr.typ == typ.Name && !used[fr.key] && g.t.Bool(1, 2) {
				used[fr.key] = true
				parts = append(parts, "..."+fr.name)
				g.mark("fragment-reuse")
				g.reuses++
				break
			}
		}
	}
	metaOK := !(g.underAbstract > 0 && !abstract) || g.f.AbstractFragMeta
	if (g.f.Typename && metaOK && g.t.Bool(1, 3)) || len(parts) == 0 {
		if !used["__typename"] {
			used["__typename"] = true
			parts = append(parts, "__typename")
		} else if len(parts) == 0 {
			parts = append(parts, g.next("t")+": __typename")
		}
	}
	return "{ " + strings.Join(parts, " ") + " }"
}

func leafOnlyStrict(depth int, g *og) bool { return depth > g.maxD+1 }

func (g *og) field(parent *ast.Definition, fd *ast.FieldDefinition, depth int, used map[string]bool) string {
	g.budget--
	g.fields++
	key := fd.Name
	alias := ""
	plainID := fd.Name == "id" && !g.f.IDAlias
	if depth == 1 && g.rootAlias != "" {
		alias = g.rootAlias
		key = alias
	} else if g.f.Aliases && !plainID && g.t.Bool(1, 4) {
		g.mark("alias")
		alias = g.next("a")
		if g.f.AliasCollide && g.t.Bool(1, 2) {
			// an alias that equals the name of some other field of the parent
			o := parent.Fields[g.t.Choose(len(parent.Fields))]
			if !strings.HasPrefix(o.Name, "__") && o.Name != fd.Name && o.Name != "id" && !used[o.Name] {
				alias = o.Name
				g.mark("alias-collide")
			}
		}
		key = alias
	}
	if used[key] && !plainID {
		alias = g.next("a")
		key = alias
	}
	used[key] = true
	g.lastKey = key
	s := ""
	if alias != "" {
		s = alias + ": "
	}
	s += fd.Name
	var as []string
	g.argDepth = depth
	for _, ad := range fd.Arguments {
		required := ad.Type.NonNull && ad.DefaultValue == nil
		if !required && !g.t.Bool(1, 2) {
			continue
		}
		v, ok := g.argValue(ad.Type, 0)
		if !ok {
			continue
		}
		as = append(as, ad.Name+": "+v)
	}
	if len(as) > 0 {
		g.mark("args")
		s += "(" + strings.Join(as, ", ") + ")"
	}
	if g.f.Directives && !(fd.Name == "id" && !g.f.IDDirective) && g.t.Bool(1, 6) && parent.Name != "Mutation" && parent.Name != "Subscription" {
		g.mark("directive")
		s += " " + g.directive()
	}
	if td := g.schema.Types[fd.Type.Name()]; isComposite(td) {
		s += " " + g.selSet(td, depth+1)
	}
	// (again, after the recursion) the response key of the field just generated
	g.lastKey = key
	return s
}

func (g *og) directive() string {
	d := []string{"skip", "include"}[g.t.Choose(2)]
	cond := []string{"true", "false"}[g.t.Choose(2)]
	if g.f.DirectiveVars && g.t.Bool(1, 2) {
		g.mark("directive-var")
		vn := g.next("b")
		g.vars = append(g.vars, &varDecl{name: vn, typ: "Boolean!", hasValue: true, value: g.t.Bool(1, 2)})
		cond = "$" + vn
	}
	return "@" + d + "(if: " + cond + ")"
}

// argValue renders a value for an argument position of type t: a literal or a variable.
func (g *og) argValue(t *ast.Type, nest int) (string, bool) {
	if g.f.Variables && len(g.vars) < 5 && g.t.Bool(1, 2) {
		g.mark("variable")
		vn := g.next("v")
		if g.f.VarNamedID || (g.f.VarNamedIDRoot && g.argDepth == 1) {
			free := true
			for _, v := range g.vars {
				if v.name == "id" {
					free = false
				}
			}
			if free && g.t.Bool(1, 2) {
				vn = "id"
				g.mark("variable-named-id")
			}
		}
		vd := &varDecl{name: vn, typ: t.String()}
		if g.f.VarStricter && !t.NonNull && g.t.Bool(1, 3) {
			vd.typ = t.String() + "!"
			g.mark("variable-stricter")
		}
		nonNull := strings.HasSuffix(vd.typ, "!")
		if g.f.VarDefaults && g.t.Bool(1, 2) {
			g.noNull = nonNull
			if lit, ok := g.literal(t, 0, false); ok {
				vd.def = lit
				g.mark("variable-default")
			}
			g.noNull = false
		}
		switch {
		case nonNull && vd.def == "":
			vd.hasValue, vd.value = true, g.jsonValue(t, 0, true)
		case vd.def != "":
			if g.t.Bool(1, 2) {
				vd.hasValue, vd.value = true, g.jsonValue(t, 0, nonNull)
			} else {
				g.mark("variable-default-used")
			}
		default:
			if g.f.VarOmitted && g.t.Bool(1, 3) {
				g.mark("variable-omitted")
			} else {
				vd.hasValue, vd.value = true, g.jsonValue(t, 0, false)
			}
		}
		g.vars = append(g.vars, vd)
		return "$" + vn, true
	}
	return g.literal(t, nest, true)
}

func (g *og) literal(t *ast.Type, nest int, allowVarInside bool) (string, bool) {
	if !t.NonNull && !g.noNull && g.f.NullLiterals && g.t.Bool(1, 8) {
		g.mark("null-literal")
		return "null", true
	}
	if t.Elem != nil {
		n := g.t.Choose(3)
		var es []string
		for i := 0; i < n; i++ {
			var e string
			var ok bool
			if allowVarInside && g.f.VarInInput && g.t.Bool(1, 3) {
				e, ok = g.argValue(t.Elem, nest+1)
			} else {
				e, ok = g.literal(t.Elem, nest+1, allowVarInside)
			}
			if !ok {
				return "", false
			}
			es = append(es, e)
		}
		return "[" + strings.Join(es, ", ") + "]", true
	}
	switch t.NamedType {
	case "String":
		return fmt.Sprintf("%q", []string{"x", "hello", "a b", ""}[g.t.Choose(4)]), true
	case "Int":
		return fmt.Sprint([]int{0, 1, 42, -7}[g.t.Choose(4)]), true
	case "Float":
		return []string{"0.5", "2.25", "10"}[g.t.Choose(3)], true
	case "Boolean":
		return []string{"true", "false"}[g.t.Choose(2)], true
	case "ID":
		return fmt.Sprintf("%q", []string{"k1", "k2"}[g.t.Choose(2)]), true
	}
	td := g.schema.Types[t.NamedType]
	if td == nil {
		return "", false
	}
	switch td.Kind {
	case ast.Enum:
		return td.EnumValues[g.t.Choose(len(td.EnumValues))].Name, true
	case ast.Scalar:
		return `"2021-02-03"`, true
	case ast.InputObject:
		if nest > 2 {
			// only required fields
		}
		var fs []string
		for _, f := range td.Fields {
			required := f.Type.NonNull && f.DefaultValue == nil
			if !required && (nest > 2 || !g.t.Bool(1, 2)) {
				continue
			}
			var v string
			var ok bool
			if allowVarInside && g.f.VarInInput && g.t.Bool(1, 3) {
				g.mark("variable-in-input")
				v, ok = g.argValue(f.Type, nest+1)
			} else {
				v, ok = g.literal(f.Type, nest+1, allowVarInside)
			}
			if !ok {
				return "", false
			}
			fs = append(fs, f.Name+": "+v)
		}
		return "{" + strings.Join(fs, ", ") + "}", true
	}
	return "", false
}

func (g *og) jsonValue(t *ast.Type, nest int, forceNonNull bool) interface{} {
	if !t.NonNull && !forceNonNull && g.f.NullLiterals && g.t.Bool(1, 8) {
		return nil
	}
	if t.Elem != nil {
		n := g.t.Choose(3)
		out := make([]interface{}, n)
		for i := range out {
			out[i] = g.jsonValue(t.Elem, nest+1, t.Elem.NonNull)
		}
		return out
	}
	switch t.NamedType {
	case "String":
		if c := g.t.Choose(4); c < 3 {
			return []string{"vx", "v hello", ""}[c]
		}
		return g.entityLikeID()
	case "Int":
		return []int{0, 3, 99, -1}[g.t.Choose(4)]
	case "Float":
		return []float64{0.25, 3.5, 8}[g.t.Choose(3)]
	case "Boolean":
		return g.t.Bool(1, 2)
	case "ID":
		if c := g.t.Choose(3); c < 2 {
			return []string{"vk1", "vk2"}[c]
		}
		return g.entityLikeID()
	}
	td := g.schema.Types[t.NamedType]
	if td == nil {
		return nil
	}
	switch td.Kind {
	case ast.Enum:
		return td.EnumValues[g.t.Choose(len(td.EnumValues))].Name
	case ast.Scalar:
		return "2022-03-04"
	case ast.InputObject:
		m := map[string]interface{}{}
		for _, f := range td.Fields {
			required := f.Type.NonNull && f.DefaultValue == nil
			if !required && (nest > 2 || !g.t.Bool(1, 2)) {
				continue
			}
			m[f.Name] = g.jsonValue(f.Type, nest+1, f.Type.NonNull)
		}
		return m
	}
	return nil
}

// GenSelection draws a selection set "{ ... }" for a composite type.
func GenSelection(t *tape.Tape, w *World, schema *ast.Schema, typ *ast.Definition, f OpFeatures, maxDepth, budget int) string {
	g := &og{t: t, w: w, schema: schema, f: f, budget: budget, maxD: maxDepth, used: map[string]int{}}
	return g.selSet(typ, 1)
}

// GenRootField draws "field(args) { ... }" for one root field ("" if it needs variables).
func GenRootField(t *tape.Tape, w *World, schema *ast.Schema, root *ast.Definition, name string, f OpFeatures, maxDepth, budget int) string {
	fd := root.Fields.ForName(name)
	if fd == nil {
		return ""
	}
	f.Variables = false
	f.Aliases = false
	g := &og{t: t, w: w, schema: schema, f: f, budget: budget, maxD: maxDepth, used: map[string]int{}}
	return g.field(root, fd, 1, map[string]bool{})
}

// entityLikeID is a client value that happens to be the id of an entity (what a client passes
// to a lookup or a mutation that takes an id).
func (g *og) entityLikeID() string {
	es := g.w.kind("entity")
	if len(es) == 0 {
		return "vk3"
	}
	return g.w.EntityID(es[g.t.Choose(len(es))], g.t.Choose(3))
}

// WithHelperIDs rewrites an operation into the text the gateway's planner turns it into for
// its own use: every selection set on an entity object type that lacks an (unaliased) id gets
// one in front. A client can send that text as an operation of its own; it differs from the
// original only in asking for the ids. ok is false when nothing was added or the operation
// uses fragments (which the planner rewrites in other ways too).
func WithHelperIDs(schema *ast.Schema, w *World, op *Op) (text string, ok bool) {
	doc, errs := gqlparser.LoadQuery(schema, op.Text)
	if errs != nil || len(doc.Fragments) > 0 {
		return "", false
	}
	changed, plain := false, true
	var walk func(ss ast.SelectionSet, typ *ast.Definition) ast.SelectionSet
	walk = func(ss ast.SelectionSet, typ *ast.Definition) ast.SelectionSet {
		hasID := false
		for _, sel := range ss {
			f, isField := sel.(*ast.Field)
			if !isField {
				plain = false
				continue
			}
			if f.Name == "id" && f.Alias == "id" {
				hasID = true
			}
			if len(f.SelectionSet) > 0 && f.Definition != nil {
				f.SelectionSet = walk(f.SelectionSet, schema.Types[f.Definition.Type.Name()])
			}
		}
		if typ != nil && typ.Kind == ast.Object && !hasID {
			if td := w.Types[typ.Name]; td != nil && td.Kind == "entity" {
				changed = true
				return append(ast.SelectionSet{&ast.Field{Name: "id", Alias: "id"}}, ss...)
			}
		}
		return ss
	}
	for _, o := range doc.Operations {
		root := schema.Query
		if o.Operation == ast.Mutation {
			root = schema.Mutation
		}
		o.SelectionSet = walk(o.SelectionSet, root)
	}
	if !changed || !plain {
		return "", false
	}
	var b strings.Builder
	formatter.NewFormatter(&b).FormatQueryDocument(doc)
	return b.String(), true
}
