package gql

import (
	"encoding/json"
	"fmt"
	"hash/fnv"
	"sort"
	"strings"

	"github.com/vektah/gqlparser/v2"
	"github.com/vektah/gqlparser/v2/ast"
	"github.com/vektah/gqlparser/v2/gqlerror"
	"github.com/vektah/gqlparser/v2/validator"
)

// Obj is a composite runtime value: an entity (Key = id) or a value object (Key = its path).
type Obj struct {
	Type string
	Key  string
}

// Effect is one executed mutation root field.
type Effect struct {
	Service int
	Field   string
	Args    string
	OpText  string
}

// Exec evaluates operations over a schema (a service's own schema or the union).
type Exec struct {
	W       *World
	Schema  *ast.Schema
	Service int // -1 = reference (union)
	Effects *[]Effect
	// EventSeq distinguishes subscription events
	EventSeq int
	// Resolved counts resolver invocations per "Type.field"
	Resolved map[string]int
}

func h64(parts ...string) uint64 {
	h := fnv.New64a()
	for _, p := range parts {
		h.Write([]byte(p))
		h.Write([]byte{0})
	}
	// extra mixing: fnv alone is weak in the low bits for short inputs
	x := h.Sum64()
	x ^= x >> 33
	x *= 0xff51afd7ed558ccd
	x ^= x >> 33
	return x
}

func (w *World) salt() string { return fmt.Sprintf("%d", w.Salt) }

// EntityID is the id of the n-th entity of a type.
func (w *World) EntityID(typ string, n int) string {
	if w.Feat.WeirdIDs {
		return fmt.Sprintf("%s_%d:x#%d.y z", typ, n, n)
	}
	return fmt.Sprintf("%s_%d", typ, n)
}

// TypeOfID parses the type out of an id ("" if it is not one of ours).
func (w *World) TypeOfID(id string) string {
	i := strings.Index(id, "_")
	if i <= 0 {
		return ""
	}
	t := id[:i]
	if td := w.Types[t]; td != nil && td.Kind == "entity" {
		return t
	}
	return ""
}

func canonArgs(args map[string]interface{}) string {
	if len(args) == 0 {
		return ""
	}
	b, err := json.Marshal(args)
	if err != nil {
		return fmt.Sprintf("%v", args)
	}
	return string(b)
}

// value computes the value of a field on an object. The union and every service evaluate the
// same pure function, so "the union of the same data" holds by construction.
func (e *Exec) value(obj Obj, fd *ast.FieldDefinition, args map[string]interface{}) interface{} {
	if fd.Name == "id" && e.isEntity(obj.Type) {
		return obj.Key
	}
	key := obj.Key + "." + fd.Name
	if ca := canonArgs(args); ca != "" {
		key += "(" + ca + ")"
	}
	if obj.Type == "Subscription" {
		key = fmt.Sprintf("%s#%d", key, e.EventSeq)
	}
	return e.valueOfType(fd.Type, key, 0)
}

func (e *Exec) isEntity(t string) bool {
	td := e.W.Types[t]
	return td != nil && td.Kind == "entity"
}

func (e *Exec) valueOfType(t *ast.Type, key string, idx int) interface{} {
	w := e.W
	h := h64(w.salt(), key)
	if !t.NonNull && int(h%100) < w.NullRate {
		return nil
	}
	if t.Elem != nil {
		n := w.LenProf[int((h>>8)%uint64(len(w.LenProf)))] * w.Mult
		out := make([]interface{}, n)
		for i := 0; i < n; i++ {
			out[i] = e.valueOfType(t.Elem, fmt.Sprintf("%s[%d]", key, i), i)
		}
		return out
	}
	name := t.NamedType
	switch name {
	case "String":
		return "s~" + key
	case "Int":
		return int(h>>16) % 100000
	case "Float":
		return float64(int(h>>16)%4000) / 8.0
	case "Boolean":
		return (h>>16)&1 == 1
	case "ID":
		return "i~" + key
	}
	td := w.Types[name]
	if td == nil {
		return "?~" + key
	}
	switch td.Kind {
	case "enum":
		return td.EnumValues[int((h>>16)%uint64(len(td.EnumValues)))]
	case "scalar":
		return "c~" + key
	case "entity":
		return Obj{Type: name, Key: w.EntityID(name, int((h>>16)%uint64(w.NEntities)))}
	case "value":
		return Obj{Type: name, Key: key}
	case "interface", "union":
		if len(td.Members) == 0 {
			return nil
		}
		m := td.Members[(int((h>>20)%uint64(len(td.Members)))+idx)%len(td.Members)]
		if e.isEntity(m) {
			return Obj{Type: m, Key: w.EntityID(m, int((h>>16)%uint64(w.NEntities)))}
		}
		return Obj{Type: m, Key: key}
	}
	return nil
}

// Response is a GraphQL response.
type Response struct {
	Data   map[string]interface{}   `json:"data"`
	Errors []map[string]interface{} `json:"errors,omitempty"`
}

func errResp(msgs ...string) *Response {
	r := &Response{}
	for _, m := range msgs {
		r.Errors = append(r.Errors, map[string]interface{}{"message": m})
	}
	return r
}

// Run parses, validates and executes one request.
func (e *Exec) Run(query string, opName *string, vars map[string]interface{}) (*Response, *ast.OperationDefinition, gqlerror.List) {
	doc, errs := gqlparser.LoadQuery(e.Schema, query)
	if errs != nil {
		var ms []string
		for _, er := range errs {
			ms = append(ms, er.Message)
		}
		return errResp(ms...), nil, errs
	}
	var op *ast.OperationDefinition
	if opName != nil && *opName != "" {
		op = doc.Operations.ForName(*opName)
	} else if len(doc.Operations) == 1 {
		op = doc.Operations[0]
	}
	if op == nil {
		return errResp("operation not found"), nil, gqlerror.List{gqlerror.Errorf("operation not found")}
	}
	vars = WithDefaults(op, vars)
	cv, err := validator.VariableValues(e.Schema, op, vars)
	if err != nil {
		return errResp("variables: " + err.Error()), op, gqlerror.List{gqlerror.Errorf("%s", err.Error())}
	}
	return &Response{Data: e.ExecOp(op, cv)}, op, nil
}

func (e *Exec) ExecOp(op *ast.OperationDefinition, vars map[string]interface{}) map[string]interface{} {
	var rootName string
	var rootDef *ast.Definition
	switch op.Operation {
	case ast.Query:
		rootName, rootDef = "Query", e.Schema.Query
	case ast.Mutation:
		rootName, rootDef = "Mutation", e.Schema.Mutation
	case ast.Subscription:
		rootName, rootDef = "Subscription", e.Schema.Subscription
	}
	if rootDef == nil {
		return nil
	}
	x := &execCtx{e: e, vars: vars, op: op}
	return x.selectionSet(Obj{Type: rootName, Key: rootName}, rootDef, op.SelectionSet)
}

type execCtx struct {
	e    *Exec
	vars map[string]interface{}
	op   *ast.OperationDefinition
}

type collected struct {
	key    string
	fields []*ast.Field
}

func (x *execCtx) skip(dl ast.DirectiveList) bool {
	if d := dl.ForName("skip"); d != nil {
		if v, _ := d.ArgumentMap(x.vars)["if"].(bool); v {
			return true
		}
	}
	if d := dl.ForName("include"); d != nil {
		if v, ok := d.ArgumentMap(x.vars)["if"].(bool); ok && !v {
			return true
		}
	}
	return false
}

func (x *execCtx) applies(objType *ast.Definition, cond string) bool {
	if cond == "" || cond == objType.Name {
		return true
	}
	cd := x.e.Schema.Types[cond]
	if cd == nil {
		return false
	}
	for _, pt := range x.e.Schema.GetPossibleTypes(cd) {
		if pt.Name == objType.Name {
			return true
		}
	}
	return false
}

func (x *execCtx) collect(objType *ast.Definition, ss ast.SelectionSet, out *[]*collected, idx map[string]int, visited map[string]bool) {
	for _, sel := range ss {
		switch s := sel.(type) {
		case *ast.Field:
			if x.skip(s.Directives) {
				continue
			}
			k := s.Alias
			if k == "" {
				k = s.Name
			}
			if i, ok := idx[k]; ok {
				(*out)[i].fields = append((*out)[i].fields, s)
			} else {
				idx[k] = len(*out)
				*out = append(*out, &collected{key: k, fields: []*ast.Field{s}})
			}
		case *ast.InlineFragment:
			if x.skip(s.Directives) || !x.applies(objType, s.TypeCondition) {
				continue
			}
			x.collect(objType, s.SelectionSet, out, idx, visited)
		case *ast.FragmentSpread:
			if x.skip(s.Directives) || visited[s.Name] {
				continue
			}
			visited[s.Name] = true
			if s.Definition == nil || !x.applies(objType, s.Definition.TypeCondition) {
				continue
			}
			x.collect(objType, s.Definition.SelectionSet, out, idx, visited)
		}
	}
}

func (x *execCtx) selectionSet(obj Obj, objType *ast.Definition, ss ast.SelectionSet) map[string]interface{} {
	var cs []*collected
	x.collect(objType, ss, &cs, map[string]int{}, map[string]bool{})
	res := make(map[string]interface{}, len(cs))
	for _, c := range cs {
		f := c.fields[0]
		if f.Name == "__typename" {
			res[c.key] = objType.Name
			continue
		}
		if f.Name == "__type" && objType == x.e.Schema.Query {
			// the small part of introspection the generator uses: __type(name:) { name kind }
			res[c.key] = x.introspectType(f)
			continue
		}
		fd := objType.Fields.ForName(f.Name)
		if fd == nil {
			// validated documents cannot get here
			res[c.key] = nil
			continue
		}
		args := f.ArgumentMap(x.vars)
		var v interface{}
		if obj.Type == "Query" && f.Name == "node" && len(fd.Arguments) == 1 {
			v = x.node(args["id"])
		} else {
			if x.e.Resolved != nil {
				x.e.Resolved[objType.Name+"."+f.Name]++
			}
			if obj.Type == "Mutation" && x.e.Effects != nil {
				*x.e.Effects = append(*x.e.Effects, Effect{Service: x.e.Service, Field: f.Name, Args: canonArgs(args)})
			}
			v = x.e.value(obj, fd, args)
		}
		var sub ast.SelectionSet
		for _, ff := range c.fields {
			sub = append(sub, ff.SelectionSet...)
		}
		res[c.key] = x.complete(v, sub)
	}
	return res
}

func (x *execCtx) node(id interface{}) interface{} {
	s, ok := id.(string)
	if !ok {
		return nil
	}
	t := x.e.W.TypeOfID(s)
	if t == "" {
		return nil
	}
	if d := x.e.Schema.Types[t]; d == nil || d.Kind != ast.Object {
		return nil
	}
	return Obj{Type: t, Key: s}
}

func (x *execCtx) complete(v interface{}, sub ast.SelectionSet) interface{} {
	switch vv := v.(type) {
	case nil:
		return nil
	case []interface{}:
		out := make([]interface{}, len(vv))
		for i, el := range vv {
			out[i] = x.complete(el, sub)
		}
		return out
	case Obj:
		d := x.e.Schema.Types[vv.Type]
		if d == nil {
			return nil
		}
		return x.selectionSet(vv, d, sub)
	default:
		return v
	}
}

// ---- JSON value helpers shared by the oracles ----

// Normalize removes objects that are {} and non-empty lists consisting only of {} together
// with their key, to a fixed point: exactly the gateway's tolerated pruning.
func Normalize(v interface{}) interface{} {
	switch vv := v.(type) {
	case map[string]interface{}:
		out := map[string]interface{}{}
		for k, c := range vv {
			n := Normalize(c)
			if isEmptyObj(n) || isAllEmptyList(n) {
				continue
			}
			out[k] = n
		}
		return out
	case []interface{}:
		out := make([]interface{}, len(vv))
		for i, c := range vv {
			out[i] = Normalize(c)
		}
		return out
	}
	return v
}

func isEmptyObj(v interface{}) bool {
	m, ok := v.(map[string]interface{})
	return ok && len(m) == 0
}

func isAllEmptyList(v interface{}) bool {
	l, ok := v.([]interface{})
	if !ok || len(l) == 0 {
		return false
	}
	for _, e := range l {
		if !isEmptyObj(e) {
			return false
		}
	}
	return true
}

// ToJSONValue round-trips through encoding/json so that numbers and nested types compare equal.
func ToJSONValue(v interface{}) interface{} {
	b, err := json.Marshal(v)
	if err != nil {
		return fmt.Sprintf("unmarshalable: %v", err)
	}
	var out interface{}
	json.Unmarshal(b, &out)
	return out
}

// Diff returns the first difference between two JSON values ("" if equal).
func Diff(path string, want, got interface{}) string {
	switch w := want.(type) {
	case map[string]interface{}:
		g, ok := got.(map[string]interface{})
		if !ok {
			return fmt.Sprintf("%s: want object, got %s", path, short(got))
		}
		keys := map[string]bool{}
		for k := range w {
			keys[k] = true
		}
		for k := range g {
			keys[k] = true
		}
		ks := sortedStrings(keys)
		for _, k := range ks {
			wv, wok := w[k]
			gv, gok := g[k]
			if !wok {
				return fmt.Sprintf("%s.%s: unexpected key in gateway answer (value %s)", path, k, short(gv))
			}
			if !gok {
				return fmt.Sprintf("%s.%s: missing in gateway answer (want %s)", path, k, short(wv))
			}
			if d := Diff(path+"."+k, wv, gv); d != "" {
				return d
			}
		}
		return ""
	case []interface{}:
		g, ok := got.([]interface{})
		if !ok {
			return fmt.Sprintf("%s: want list, got %s", path, short(got))
		}
		if len(w) != len(g) {
			return fmt.Sprintf("%s: list length want %d got %d", path, len(w), len(g))
		}
		for i := range w {
			if d := Diff(fmt.Sprintf("%s[%d]", path, i), w[i], g[i]); d != "" {
				return d
			}
		}
		return ""
	default:
		if fmt.Sprintf("%T:%v", want, want) != fmt.Sprintf("%T:%v", got, got) {
			return fmt.Sprintf("%s: want %s got %s", path, short(want), short(got))
		}
		return ""
	}
}

func short(v interface{}) string {
	b, _ := json.Marshal(v)
	if len(b) > 160 {
		return string(b[:160]) + "..."
	}
	return string(b)
}

// Leaves collects every scalar leaf (as JSON text) of a value.
func Leaves(v interface{}, out map[string]bool) {
	switch vv := v.(type) {
	case map[string]interface{}:
		for _, c := range vv {
			Leaves(c, out)
		}
	case []interface{}:
		for _, c := range vv {
			Leaves(c, out)
		}
	case nil:
	default:
		b, _ := json.Marshal(vv)
		out[string(b)] = true
	}
}

func SortedKeys(m map[string]bool) []string {
	out := make([]string, 0, len(m))
	for k := range m {
		out = append(out, k)
	}
	sort.Strings(out)
	return out
}

// ConstValue evaluates a constant value literal; unlike ast.Value.Value an empty list literal
// stays an empty list (gqlparser turns it into a nil slice, i.e. JSON null).
func ConstValue(v *ast.Value) interface{} {
	switch v.Kind {
	case ast.ListValue:
		out := make([]interface{}, 0, len(v.Children))
		for _, ch := range v.Children {
			out = append(out, ConstValue(ch.Value))
		}
		return out
	case ast.ObjectValue:
		m := map[string]interface{}{}
		for _, ch := range v.Children {
			m[ch.Name] = ConstValue(ch.Value)
		}
		return m
	}
	x, err := v.Value(nil)
	if err != nil {
		return nil
	}
	return x
}

// WithDefaults returns the variables completed with the operation's declared defaults.
func WithDefaults(op *ast.OperationDefinition, vars map[string]interface{}) map[string]interface{} {
	out := map[string]interface{}{}
	for k, v := range vars {
		out[k] = v
	}
	for _, vd := range op.VariableDefinitions {
		if vd.DefaultValue == nil {
			continue
		}
		if _, ok := out[vd.Variable]; ok {
			continue
		}
		out[vd.Variable] = ConstValue(vd.DefaultValue)
	}
	return out
}

func (x *execCtx) introspectType(f *ast.Field) interface{} {
	name, _ := f.ArgumentMap(x.vars)["name"].(string)
	td := x.e.Schema.Types[name]
	if td == nil {
		return nil
	}
	out := map[string]interface{}{}
	for _, s := range f.SelectionSet {
		if sf, ok := s.(*ast.Field); ok {
			switch sf.Name {
			case "name":
				out[sf.Alias] = td.Name
			case "kind":
				out[sf.Alias] = string(td.Kind)
			case "__typename":
				out[sf.Alias] = "__Type"
			}
		}
	}
	return out
}
