package gql

import (
	"encoding/json"
	"fmt"
	"testing"

	"github.com/vektah/gqlparser/v2/ast"

	"verif/sim/tape"
)

func allFeat() (Features, OpFeatures) {
	return Features{Interfaces: true, Unions: true, ValueTypes: true, Inputs: true, Enums: true, CustomScalar: true, Args: true, ArgDefaults: true, Mutations: true, Subscriptions: true, ValueUnion: true},
		OpFeatures{Aliases: true, AliasCollide: true, Variables: true, VarDefaults: true, VarOmitted: true, VarInInput: true, VarNamedID: true, VarStricter: true, Directives: true, DirectiveVars: true, NamedFragments: true, InlineFragments: true, Typename: true, RootTypename: true, NodeRoot: true, MultiOp: true, DupFields: true, NullLiterals: true, AbstractFrags: true, ExplicitID: true, IDAlias: true, IDDirective: true, IDWithFragments: true, AbstractNested: true, AbstractCondFrag: true, AbstractFragMeta: true, FragTwice: true, FragDirectives: true, FragReuse: true}
}

func TestGenerators(t *testing.T) {
	n := 0
	for seed := uint64(1); seed <= 1500; seed++ {
		tp := tape.New(seed)
		wf, of := allFeat()
		if seed%2 == 0 {
			wf = DefaultFeatures(tp)
			of = DefaultOpFeatures(tp)
		}
		w := Generate(tp, wf, 4)
		for i := 0; i < 3; i++ {
			kind := ast.Query
			if i == 1 && w.Union.Mutation != nil {
				kind = ast.Mutation
			}
			if i == 2 && w.Union.Subscription != nil {
				kind = ast.Subscription
			}
			op := GenOp(tp, w, w.Union, kind, of, 4, 25)
			ex := &Exec{W: w, Schema: w.Union, Service: -1}
			resp, _, errs := ex.Run(op.Text, op.OpName, op.Vars)
			if errs != nil {
				t.Fatalf("seed %d: reference rejects: %v\n%s", seed, errs, op.Text)
			}
			b, _ := json.Marshal(resp.Data)
			if seed == 7 && i == 0 {
				fmt.Println(w.Describe())
				fmt.Println(op.Text, op.Vars)
				fmt.Println(string(b))
			}
			n++
		}
	}
	fmt.Println("ops", n)
}
