// Package gql holds the generated worlds (a union schema projected onto services following
// pebbles' federation contract, data as a pure function), a small spec-following GraphQL
// executor used both by the simulated services and by the single-server reference model, and
// the operation generator.
package gql

import (
	"fmt"
	"sort"
	"strings"

	"github.com/vektah/gqlparser/v2"
	"github.com/vektah/gqlparser/v2/ast"

	"verif/sim/tape"
)

type TypeRef struct {
	Name        string
	List        bool
	NonNull     bool // outer
	ElemNonNull bool // only for lists
}

func (t TypeRef) String() string {
	s := t.Name
	if t.List {
		if t.ElemNonNull {
			s += "!"
		}
		s = "[" + s + "]"
	}
	if t.NonNull {
		s += "!"
	}
	return s
}

type ArgDef struct {
	Name    string
	Type    TypeRef
	Default string // GraphQL literal, "" = none
}

type FieldDef struct {
	Name  string
	Type  TypeRef
	Args  []*ArgDef
	Owner int
	// FromInterface names the interface that prescribes this field ("" = own field)
	FromInterface string
}

type TypeDef struct {
	Name       string
	Kind       string // entity value interface union enum input scalar
	Fields     []*FieldDef
	Implements []string // non-Node interfaces
	Members    []string // union members, interface implementers
	EnumValues []string
	Inputs     []*ArgDef
}

type Features struct {
	Interfaces     bool
	Unions         bool
	ValueTypes     bool
	Inputs         bool
	Enums          bool
	CustomScalar   bool
	Args           bool
	ArgDefaults    bool
	Mutations      bool
	Subscriptions  bool
	ValueUnion     bool // unions with value-type members
	SharedRootName bool // same root field name under Query and Mutation
	ValueTypeID    bool // value types with a plain (non Node) id field
	ListOfLists    bool
	WeirdIDs       bool // ids with separators : # . and spaces
	IDOnlyEntity   bool // the last entity type has no field but id
	EmptyAbstract  bool // an interface without implementers and a root field returning it
	Uploads        bool // scalar Upload, input FileInput and mutation fields taking files
}

type World struct {
	Salt      uint64
	K         int
	URLs      []string
	Feat      Features
	Types     map[string]*TypeDef
	Order     []string
	Query     []*FieldDef
	Mutation  []*FieldDef
	Subscr    []*FieldDef
	NEntities int // ids per entity type
	NullRate  int // percent
	LenProf   []int
	Mult      int // list length multiplier (C12)

	UnionSDL    string
	ServiceSDL  []string
	Union       *ast.Schema
	Services    []*ast.Schema
	UnionNoNode *ast.Schema // union schema as the node-hiding merger exposes it
}

var scalarNames = []string{"String", "Int", "Boolean", "Float", "ID"}
var entityNames = []string{"User", "Book", "Shop", "Tag", "Pet", "Car"}
var valueNames = []string{"Address", "Money", "Meta"}
var ifaceNames = []string{"Named", "Owned"}
var unionNames = []string{"SearchResult", "Thing"}
var enumNames = []string{"Color", "Status"}
var inputNames = []string{"Filter", "Range"}
var fieldWords = []string{"name", "title", "count", "price", "active", "code", "owner", "items", "friends", "parent", "address", "tags", "rating", "notes", "kind", "score", "shop", "pets", "related", "meta"}

type gen struct {
	t *tape.Tape
	w *World
}

func (g *gen) pick(ss []string) string { return ss[g.t.Choose(len(ss))] }

func DefaultFeatures(t *tape.Tape) Features {
	return Features{
		// unions over entity types, and several selection shapes below interface-typed fields,
		// hit open known findings of the planner (DESIGN.md sec. 9): unions are drawn (to keep
		// tapes stable) but switched off unless a -sim.features override turns them on;
		// interfaces are on with the restricted selection shapes of OpFeatures
		Interfaces:    t.Bool(1, 2),
		Unions:        t.Bool(1, 2) && false,
		ValueTypes:    t.Bool(2, 3),
		Inputs:        t.Bool(1, 2),
		Enums:         t.Bool(1, 2),
		CustomScalar:  t.Bool(1, 4),
		Args:          t.Bool(3, 4),
		ArgDefaults:   t.Bool(1, 3),
		Mutations:     t.Bool(1, 2),
		Subscriptions: false,
		WeirdIDs:      t.Bool(1, 5),
		IDOnlyEntity:  t.Bool(1, 6),
	}
}

// Generate draws a world from the tape.
func Generate(t *tape.Tape, feat Features, maxServices int) *World {
	w := &World{Types: map[string]*TypeDef{}, Feat: feat, Mult: 1}
	g := &gen{t: t, w: w}
	w.Salt = uint64(t.Choose(1<<30)) + 1
	w.K = 1 + t.Choose(maxServices)
	w.NEntities = 2 + t.Choose(3)
	w.NullRate = []int{0, 10, 25, 50}[t.Choose(4)]
	w.LenProf = [][]int{{0, 1, 2, 3}, {1, 2, 2, 3}, {0, 1, 1, 4}, {2, 2, 3, 3}}[t.Choose(4)]
	add := func(td *TypeDef) {
		w.Types[td.Name] = td
		w.Order = append(w.Order, td.Name)
	}
	if feat.Enums {
		n := 1 + t.Choose(2)
		for i := 0; i < n; i++ {
			add(&TypeDef{Name: enumNames[i], Kind: "enum", EnumValues: []string{"RED", "GREEN", "BLUE", "ACTIVE"}[:2+t.Choose(3)]})
		}
	}
	if feat.CustomScalar {
		add(&TypeDef{Name: "DateTime", Kind: "scalar"})
	}
	if feat.Inputs {
		n := 1 + t.Choose(2)
		for i := 0; i < n; i++ {
			td := &TypeDef{Name: inputNames[i], Kind: "input"}
			nf := 1 + t.Choose(3)
			for j := 0; j < nf; j++ {
				a := &ArgDef{Name: fmt.Sprintf("f%d", j)}
				a.Type = g.inputTypeRef(i) // may refer to an earlier input
				if feat.ArgDefaults && !a.Type.List && t.Bool(1, 4) {
					a.Default = g.defaultLiteral(a.Type)
				}
				td.Inputs = append(td.Inputs, a)
			}
			add(td)
		}
	}
	nEnt := 1 + t.Choose(5)
	for i := 0; i < nEnt; i++ {
		add(&TypeDef{Name: entityNames[i], Kind: "entity"})
	}
	if feat.ValueTypes {
		n := 1 + t.Choose(3)
		for i := 0; i < n; i++ {
			add(&TypeDef{Name: valueNames[i], Kind: "value"})
		}
	}
	ents := w.kind("entity")
	if feat.Interfaces {
		n := 1 + t.Choose(2)
		for i := 0; i < n; i++ {
			td := &TypeDef{Name: ifaceNames[i], Kind: "interface"}
			// implementers: non-empty subset of entities
			for _, e := range ents {
				if t.Bool(1, 2) {
					td.Members = append(td.Members, e)
				}
			}
			if len(td.Members) == 0 {
				td.Members = []string{ents[t.Choose(len(ents))]}
			}
			add(td)
		}
	}
	if feat.Unions {
		n := 1 + t.Choose(2)
		for i := 0; i < n; i++ {
			td := &TypeDef{Name: unionNames[i], Kind: "union"}
			for _, e := range ents {
				if t.Bool(1, 2) {
					td.Members = append(td.Members, e)
				}
			}
			if feat.ValueUnion {
				for _, v := range w.kind("value") {
					if t.Bool(1, 3) {
						td.Members = append(td.Members, v)
					}
				}
			}
			if len(td.Members) == 0 {
				td.Members = []string{ents[t.Choose(len(ents))]}
			}
			add(td)
		}
	}
	// fields
	used := map[string]map[string]bool{}
	fname := func(owner string) string {
		if used[owner] == nil {
			used[owner] = map[string]bool{"id": true, "node": true}
		}
		for {
			n := g.pick(fieldWords)
			if used[owner][n] {
				n = fmt.Sprintf("%s%d", n, len(used[owner]))
			}
			if !used[owner][n] {
				used[owner][n] = true
				return n
			}
		}
	}
	// interface fields first: one owner per interface field, copied to every implementer
	for _, in := range w.kind("interface") {
		it := w.Types[in]
		nf := 1 + t.Choose(2)
		for j := 0; j < nf; j++ {
			f := &FieldDef{Name: "", Owner: t.Choose(w.K), FromInterface: in}
			// the name must be free in the interface and all implementers
			for {
				n := g.pick(fieldWords)
				free := !(used[in] != nil && used[in][n])
				for _, m := range it.Members {
					if used[m] != nil && used[m][n] {
						free = false
					}
				}
				if n == "id" || n == "node" {
					free = false
				}
				if free {
					f.Name = n
					break
				}
			}
			f.Type = g.outTypeRef(false)
			f.Args = g.args()
			for _, o := range append([]string{in}, it.Members...) {
				if used[o] == nil {
					used[o] = map[string]bool{"id": true, "node": true}
				}
				used[o][f.Name] = true
			}
			it.Fields = append(it.Fields, f)
			for _, m := range it.Members {
				cp := *f
				w.Types[m].Fields = append(w.Types[m].Fields, &cp)
			}
		}
		for _, m := range it.Members {
			w.Types[m].Implements = append(w.Types[m].Implements, in)
		}
	}
	for ei, en := range ents {
		nf := 1 + t.Choose(4)
		if feat.IDOnlyEntity && ei == len(ents)-1 && len(ents) >= 2 && len(w.Types[en].Fields) == 0 {
			nf = 0 // type T implements Node { id: ID! }
		}
		for j := 0; j < nf; j++ {
			f := &FieldDef{Name: fname(en), Owner: t.Choose(w.K)}
			f.Type = g.outTypeRef(false)
			f.Args = g.args()
			w.Types[en].Fields = append(w.Types[en].Fields, f)
		}
	}
	vals := w.kind("value")
	for vi, vn := range vals {
		nf := 1 + t.Choose(3)
		for j := 0; j < nf; j++ {
			f := &FieldDef{Name: fname(vn), Owner: -1}
			f.Type = g.outTypeRefValue(vi)
			f.Args = g.args()
			w.Types[vn].Fields = append(w.Types[vn].Fields, f)
		}
	}
	// roots
	nq := 2 + t.Choose(4)
	for j := 0; j < nq; j++ {
		f := &FieldDef{Name: "q" + strings.Title(fname("Query")), Owner: t.Choose(w.K)}
		f.Type = g.outTypeRef(true)
		f.Args = g.args()
		w.Query = append(w.Query, f)
	}
	if feat.Mutations {
		nm := 1 + t.Choose(3)
		for j := 0; j < nm; j++ {
			f := &FieldDef{Name: "m" + strings.Title(fname("Mutation")), Owner: t.Choose(w.K)}
			f.Type = g.outTypeRef(true)
			f.Args = g.args()
			w.Mutation = append(w.Mutation, f)
		}
	}
	if feat.SharedRootName && feat.Mutations && len(w.Query) > 0 {
		// the same root field (name, arguments, type) under Query and Mutation
		src := w.Query[t.Choose(len(w.Query))]
		cp := *src
		cp.Owner = t.Choose(w.K)
		w.Mutation = append(w.Mutation, &cp)
	}
	if feat.Subscriptions {
		ns := 1 + t.Choose(2)
		for j := 0; j < ns; j++ {
			f := &FieldDef{Name: "s" + strings.Title(fname("Subscription")), Owner: t.Choose(w.K)}
			f.Type = g.outTypeRef(true)
			if f.Type.List {
				f.Type.List = false
			}
			f.Args = g.args()
			w.Subscr = append(w.Subscr, f)
		}
	}
	if feat.Uploads {
		add(&TypeDef{Name: "Upload", Kind: "scalar"})
		add(&TypeDef{Name: "FileInner", Kind: "input", Inputs: []*ArgDef{{Name: "doc", Type: TypeRef{Name: "Upload"}}, {Name: "note", Type: TypeRef{Name: "String"}}}})
		add(&TypeDef{Name: "FileInput", Kind: "input", Inputs: []*ArgDef{
			{Name: "label", Type: TypeRef{Name: "String"}},
			{Name: "file", Type: TypeRef{Name: "Upload"}},
			{Name: "files", Type: TypeRef{Name: "Upload", List: true}},
			{Name: "inner", Type: TypeRef{Name: "FileInner"}},
			{Name: "inners", Type: TypeRef{Name: "FileInner", List: true}},
		}})
		ret := func() TypeRef {
			if t.Bool(1, 2) {
				return TypeRef{Name: ents[t.Choose(len(ents))], NonNull: true}
			}
			return TypeRef{Name: "String", NonNull: true}
		}
		w.Mutation = append(w.Mutation,
			&FieldDef{Name: "mUpload", Owner: t.Choose(w.K), Type: ret(), Args: []*ArgDef{{Name: "file", Type: TypeRef{Name: "Upload", NonNull: true}}, {Name: "tag", Type: TypeRef{Name: "String"}}}},
			&FieldDef{Name: "mUploads", Owner: t.Choose(w.K), Type: ret(), Args: []*ArgDef{{Name: "files", Type: TypeRef{Name: "Upload", List: true}}}},
			&FieldDef{Name: "mUploadIn", Owner: t.Choose(w.K), Type: ret(), Args: []*ArgDef{{Name: "input", Type: TypeRef{Name: "FileInput"}}}},
			&FieldDef{Name: "mUploadIn2", Owner: t.Choose(w.K), Type: ret(), Args: []*ArgDef{{Name: "input", Type: TypeRef{Name: "FileInput"}}, {Name: "extra", Type: TypeRef{Name: "Upload"}}}},
		)
	}
	if feat.EmptyAbstract {
		add(&TypeDef{Name: "Lonely", Kind: "interface"})
		w.Query = append(w.Query, &FieldDef{Name: "qLonely", Owner: t.Choose(w.K), Type: TypeRef{Name: "Lonely", List: t.Bool(1, 2)}})
	}
	w.dropIdleServices()
	for i := 0; i < w.K; i++ {
		w.URLs = append(w.URLs, fmt.Sprintf("http://svc%d/query", i))
	}
	w.build()
	return w
}

func (w *World) kind(k string) []string {
	var out []string
	for _, n := range w.Order {
		if w.Types[n].Kind == k {
			out = append(out, n)
		}
	}
	return out
}

// EntityNames lists the entity (Node) types in declaration order.
func (w *World) EntityNames() []string { return w.kind("entity") }

// dropIdleServices renumbers owners so that every service owns at least one field.
func (w *World) dropIdleServices() {
	owns := map[int]bool{}
	each := func(f *FieldDef) {
		if f.Owner >= 0 {
			owns[f.Owner] = true
		}
	}
	w.eachOwned(each)
	var keep []int
	for i := 0; i < w.K; i++ {
		if owns[i] {
			keep = append(keep, i)
		}
	}
	re := map[int]int{}
	for ni, o := range keep {
		re[o] = ni
	}
	w.eachOwned(func(f *FieldDef) {
		if f.Owner >= 0 {
			f.Owner = re[f.Owner]
		}
	})
	w.K = len(keep)
}

func (w *World) eachOwned(fn func(f *FieldDef)) {
	for _, n := range w.Order {
		td := w.Types[n]
		if td.Kind == "entity" || td.Kind == "interface" {
			for _, f := range td.Fields {
				fn(f)
			}
		}
	}
	for _, f := range w.Query {
		fn(f)
	}
	for _, f := range w.Mutation {
		fn(f)
	}
	for _, f := range w.Subscr {
		fn(f)
	}
}

func (g *gen) scalarRef() TypeRef {
	names := append([]string{}, scalarNames...)
	names = append(names, g.w.kind("enum")...)
	names = append(names, g.w.kind("scalar")...)
	return TypeRef{Name: names[g.t.Choose(len(names))]}
}

func (g *gen) wrap(r TypeRef) TypeRef {
	switch g.t.Choose(6) {
	case 0, 1:
	case 2:
		r.NonNull = true
	case 3:
		r.List = true
	case 4:
		r.List, r.ElemNonNull, r.NonNull = true, true, true
	case 5:
		r.List, r.ElemNonNull = true, true
	}
	return r
}

// outTypeRef draws the type of an entity / interface / root field.
func (g *gen) outTypeRef(root bool) TypeRef {
	var comp []string
	comp = append(comp, g.w.kind("entity")...)
	comp = append(comp, g.w.kind("entity")...)
	comp = append(comp, g.w.kind("value")...)
	comp = append(comp, g.w.kind("interface")...)
	comp = append(comp, g.w.kind("union")...)
	// composite-typed fields make deep, cross-service selections possible
	num := 2
	if root {
		num = 3
	}
	if len(comp) > 0 && g.t.Bool(num, 4) {
		return g.wrap(TypeRef{Name: comp[g.t.Choose(len(comp))]})
	}
	return g.wrap(g.scalarRef())
}

// outTypeRefValue: fields of value type number vi may refer to entities, abstract types and later value types.
func (g *gen) outTypeRefValue(vi int) TypeRef {
	var comp []string
	comp = append(comp, g.w.kind("entity")...)
	vals := g.w.kind("value")
	comp = append(comp, vals[vi+1:]...)
	comp = append(comp, g.w.kind("interface")...)
	comp = append(comp, g.w.kind("union")...)
	if len(comp) > 0 && g.t.Bool(1, 3) {
		return g.wrap(TypeRef{Name: comp[g.t.Choose(len(comp))]})
	}
	return g.wrap(g.scalarRef())
}

func (g *gen) inputTypeRef(idx int) TypeRef {
	ins := g.w.kind("input")
	if len(ins) > 0 && g.t.Bool(1, 4) {
		r := TypeRef{Name: ins[g.t.Choose(len(ins))]}
		if g.t.Bool(1, 3) {
			r.List = true
		}
		return r
	}
	r := g.scalarRef()
	switch g.t.Choose(5) {
	case 0:
		r.NonNull = true
	case 1:
		r.List = true
	case 2:
		r.List, r.ElemNonNull = true, true
	}
	return r
}

func (g *gen) argTypeRef() TypeRef {
	ins := g.w.kind("input")
	if len(ins) > 0 && g.t.Bool(1, 3) {
		r := TypeRef{Name: ins[g.t.Choose(len(ins))]}
		switch g.t.Choose(4) {
		case 0:
			r.NonNull = true
		case 1:
			r.List = true
		}
		return r
	}
	r := g.scalarRef()
	switch g.t.Choose(5) {
	case 0:
		r.NonNull = true
	case 1:
		r.List = true
	case 2:
		r.List, r.ElemNonNull, r.NonNull = true, true, true
	}
	return r
}

func (g *gen) args() []*ArgDef {
	if !g.w.Feat.Args || !g.t.Bool(1, 3) {
		return nil
	}
	n := 1 + g.t.Choose(2)
	var out []*ArgDef
	for i := 0; i < n; i++ {
		a := &ArgDef{Name: []string{"first", "where", "q", "by"}[i+g.t.Choose(2)], Type: g.argTypeRef()}
		if i > 0 && a.Name == out[0].Name {
			a.Name += "2"
		}
		if g.w.Feat.ArgDefaults && !a.Type.List && g.t.Bool(1, 3) {
			a.Default = g.defaultLiteral(a.Type)
		}
		out = append(out, a)
	}
	return out
}

func (g *gen) defaultLiteral(r TypeRef) string {
	switch r.Name {
	case "String":
		return `"dflt"`
	case "Int":
		return "7"
	case "Float":
		return "1.5"
	case "Boolean":
		return "true"
	case "ID":
		return `"id-d"`
	}
	if td := g.w.Types[r.Name]; td != nil {
		switch td.Kind {
		case "enum":
			return td.EnumValues[0]
		case "scalar":
			return `"2020-01-01"`
		}
	}
	return ""
}

// ---- SDL ----

func argsSDL(args []*ArgDef) string {
	if len(args) == 0 {
		return ""
	}
	var ps []string
	for _, a := range args {
		s := a.Name + ": " + a.Type.String()
		if a.Default != "" {
			s += " = " + a.Default
		}
		ps = append(ps, s)
	}
	return "(" + strings.Join(ps, ", ") + ")"
}

func fieldSDL(f *FieldDef) string {
	return "  " + f.Name + argsSDL(f.Args) + ": " + f.Type.String() + "\n"
}

// sdl prints the schema of service svc (or the union when svc < 0).
func (w *World) sdl(svc int) string {
	need := map[string]bool{}
	var visitType func(name string)
	visitRef := func(r TypeRef) { visitType(r.Name) }
	visitField := func(f *FieldDef) {
		visitRef(f.Type)
		for _, a := range f.Args {
			visitRef(a.Type)
		}
	}
	owned := func(f *FieldDef) bool { return svc < 0 || f.Owner == svc }
	visitType = func(name string) {
		td := w.Types[name]
		if td == nil || need[name] {
			return
		}
		need[name] = true
		switch td.Kind {
		case "entity":
			for _, f := range td.Fields {
				if owned(f) {
					visitField(f)
				}
			}
		case "interface":
			for _, f := range td.Fields {
				if owned(f) {
					visitField(f)
				}
			}
			for _, m := range td.Members {
				visitType(m)
			}
		case "value":
			for _, f := range td.Fields {
				visitField(f)
			}
		case "union":
			for _, m := range td.Members {
				visitType(m)
			}
		case "input":
			for _, a := range td.Inputs {
				visitRef(a.Type)
			}
		}
	}
	for _, fs := range [][]*FieldDef{w.Query, w.Mutation, w.Subscr} {
		for _, f := range fs {
			if owned(f) {
				visitField(f)
			}
		}
	}
	for _, n := range w.Order {
		td := w.Types[n]
		if td.Kind == "entity" || td.Kind == "interface" {
			for _, f := range td.Fields {
				if owned(f) && f.FromInterface == "" || owned(f) && td.Kind == "interface" {
					visitType(n)
				}
			}
		}
	}
	// an entity that implements an interface present here must be present with that interface
	changed := true
	for changed {
		changed = false
		for _, n := range w.Order {
			td := w.Types[n]
			if td.Kind == "interface" && need[n] {
				for _, m := range td.Members {
					if !need[m] {
						visitType(m)
						changed = true
					}
				}
			}
		}
	}
	var b strings.Builder
	hasEntity := false
	for _, n := range w.Order {
		if need[n] && w.Types[n].Kind == "entity" {
			hasEntity = true
		}
	}
	if hasEntity {
		b.WriteString("interface Node {\n  id: ID!\n}\n\n")
	}
	for _, n := range w.Order {
		if !need[n] {
			continue
		}
		td := w.Types[n]
		switch td.Kind {
		case "enum":
			b.WriteString("enum " + n + " {\n")
			for _, v := range td.EnumValues {
				b.WriteString("  " + v + "\n")
			}
			b.WriteString("}\n\n")
		case "scalar":
			b.WriteString("scalar " + n + "\n\n")
		case "input":
			b.WriteString("input " + n + " {\n")
			for _, a := range td.Inputs {
				s := "  " + a.Name + ": " + a.Type.String()
				if a.Default != "" {
					s += " = " + a.Default
				}
				b.WriteString(s + "\n")
			}
			b.WriteString("}\n\n")
		case "entity":
			impl := []string{"Node"}
			for _, in := range td.Implements {
				if need[in] {
					impl = append(impl, in)
				}
			}
			b.WriteString("type " + n + " implements " + strings.Join(impl, " & ") + " {\n  id: ID!\n")
			for _, f := range td.Fields {
				if owned(f) {
					b.WriteString(fieldSDL(f))
				}
			}
			b.WriteString("}\n\n")
		case "interface":
			b.WriteString("interface " + n + " {\n  id: ID!\n")
			for _, f := range td.Fields {
				if owned(f) {
					b.WriteString(fieldSDL(f))
				}
			}
			b.WriteString("}\n\n")
		case "value":
			b.WriteString("type " + n + " {\n")
			for _, f := range td.Fields {
				b.WriteString(fieldSDL(f))
			}
			b.WriteString("}\n\n")
		case "union":
			b.WriteString("union " + n + " = " + strings.Join(td.Members, " | ") + "\n\n")
		}
	}
	b.WriteString("type Query {\n")
	if hasEntity {
		b.WriteString("  node(id: ID!): Node\n")
	}
	nq := 0
	for _, f := range w.Query {
		if owned(f) {
			b.WriteString(fieldSDL(f))
			nq++
		}
	}
	if !hasEntity && nq == 0 {
		b.WriteString(fmt.Sprintf("  _service%d: String\n", svc))
	}
	b.WriteString("}\n\n")
	for _, rt := range []struct {
		name string
		fs   []*FieldDef
	}{{"Mutation", w.Mutation}, {"Subscription", w.Subscr}} {
		var lines []string
		for _, f := range rt.fs {
			if owned(f) {
				lines = append(lines, fieldSDL(f))
			}
		}
		if len(lines) > 0 {
			b.WriteString("type " + rt.name + " {\n" + strings.Join(lines, "") + "}\n\n")
		}
	}
	return b.String()
}

func (w *World) build() {
	w.UnionSDL = w.sdl(-1)
	var err error
	w.Union, err = gqlparser.LoadSchema(&ast.Source{Name: "union", Input: w.UnionSDL})
	if err != nil {
		panic(HarnessError("generated union schema does not load: " + err.Error() + "\n" + w.UnionSDL))
	}
	for i := 0; i < w.K; i++ {
		sdl := w.sdl(i)
		s, err := gqlparser.LoadSchema(&ast.Source{Name: fmt.Sprintf("svc%d", i), Input: sdl})
		if err != nil {
			panic(HarnessError(fmt.Sprintf("generated schema of service %d does not load: %v\n%s", i, err, sdl)))
		}
		w.ServiceSDL = append(w.ServiceSDL, sdl)
		w.Services = append(w.Services, s)
	}
}

type HarnessError string

func (h HarnessError) Error() string { return string(h) }

// Owner returns the service index that owns Type.field (-1: not an owned field).
func (w *World) Owner(typ, field string) int {
	var fs []*FieldDef
	switch typ {
	case "Query":
		fs = w.Query
	case "Mutation":
		fs = w.Mutation
	case "Subscription":
		fs = w.Subscr
	default:
		if td := w.Types[typ]; td != nil {
			fs = td.Fields
		}
	}
	for _, f := range fs {
		if f.Name == field {
			return f.Owner
		}
	}
	return -1
}

func (w *World) Describe() string {
	var parts []string
	for i, s := range w.ServiceSDL {
		parts = append(parts, fmt.Sprintf("# service %d (%s)\n%s", i, w.URLs[i], s))
	}
	return strings.Join(parts, "\n")
}

func sortedStrings(m map[string]bool) []string {
	var out []string
	for k := range m {
		out = append(out, k)
	}
	sort.Strings(out)
	return out
}
