// Package autoyield rewrites a scratch copy of the module under test in place:
//   - before every statement of every function body it inserts simhook.Auto("<file>:<line>"),
//     an interleaving point the simulator may or may not stop at;
//   - sync.Mutex / sync.RWMutex become simhook.Mutex / simhook.RWMutex, which park a goroutine that
//     would block in the simulator instead of in the runtime (a goroutine stopped at an inserted
//     point while holding a lock would otherwise stall the others outside the simulator's view).
//
// Test files, the simhook package itself and files without function bodies are left alone.
package autoyield

import (
	"bytes"
	"fmt"
	"go/ast"
	"go/format"
	"go/parser"
	"go/token"
	"os"
	"path/filepath"
	"strconv"
	"strings"
)

// Instrument rewrites the module copy under root in place and returns how many files and
// interleaving points it touched.
func Instrument(root, mod string) (files, sites int, err error) {
	err = filepath.Walk(root, func(path string, info os.FileInfo, err error) error {
		if err != nil {
			return err
		}
		rel, _ := filepath.Rel(root, path)
		if info.IsDir() {
			if rel == "simhook" || strings.HasPrefix(info.Name(), ".") && rel != "." || info.Name() == "testdata" || info.Name() == "_seed" {
				return filepath.SkipDir
			}
			return nil
		}
		if !strings.HasSuffix(path, ".go") || strings.HasSuffix(path, "_test.go") {
			return nil
		}
		n, err := rewrite(path, rel, mod)
		if err != nil {
			return fmt.Errorf("%s: %v", rel, err)
		}
		if n > 0 {
			files++
			sites += n
		}
		return nil
	})
	return
}

func rewrite(path, rel, mod string) (int, error) {
	fset := token.NewFileSet()
	f, err := parser.ParseFile(fset, path, nil, parser.ParseComments)
	if err != nil {
		return 0, err
	}
	// the name the file uses for package sync (none if it does not import it)
	syncName := ""
	hasSimhook := false
	for _, im := range f.Imports {
		p, _ := strconv.Unquote(im.Path.Value)
		if p == "sync" {
			syncName = "sync"
			if im.Name != nil {
				syncName = im.Name.Name
			}
		}
		if p == mod+"/simhook" && im.Name == nil {
			hasSimhook = true
		}
	}
	sites, swapped := 0, 0
	yield := func(pos token.Pos) ast.Stmt {
		sites++
		site := fmt.Sprintf("%s:%d", rel, fset.Position(pos).Line)
		return &ast.ExprStmt{X: &ast.CallExpr{
			Fun:  &ast.SelectorExpr{X: ast.NewIdent("simhook"), Sel: ast.NewIdent("Auto")},
			Args: []ast.Expr{&ast.BasicLit{Kind: token.STRING, Value: strconv.Quote(site)}},
		}}
	}
	var instr func(list []ast.Stmt) []ast.Stmt
	instr = func(list []ast.Stmt) []ast.Stmt {
		out := make([]ast.Stmt, 0, 2*len(list))
		for i, st := range list {
			// a hand-placed yield guards the statement that follows it: nothing in between
			if i > 0 && isHandYield(list[i-1]) {
				out = append(out, st)
				continue
			}
			out = append(out, yield(st.Pos()), st)
		}
		return out
	}
	inFunc := 0
	ast.Inspect(f, func(n ast.Node) bool {
		switch x := n.(type) {
		case *ast.SelectorExpr:
			// sync.Mutex / sync.RWMutex as a type expression
			if id, ok := x.X.(*ast.Ident); ok && syncName != "" && id.Name == syncName && id.Obj == nil && (x.Sel.Name == "Mutex" || x.Sel.Name == "RWMutex") {
				id.Name = "simhook"
				swapped++
			}
		}
		return true
	})
	// statement lists: function bodies (declared and literal) and everything nested in them
	var walk func(n ast.Node)
	clauseLists := map[*ast.BlockStmt]bool{} // bodies of switch / select: lists of clauses, not of statements
	walk = func(n ast.Node) {
		ast.Inspect(n, func(n ast.Node) bool {
			switch x := n.(type) {
			case *ast.SwitchStmt:
				clauseLists[x.Body] = true
			case *ast.TypeSwitchStmt:
				clauseLists[x.Body] = true
			case *ast.SelectStmt:
				clauseLists[x.Body] = true
			case *ast.FuncDecl:
				if x.Body == nil || x.Name.Name == "init" {
					return false
				}
				inFunc++
			case *ast.BlockStmt:
				if inFunc > 0 && !clauseLists[x] {
					x.List = instr(x.List)
				}
			case *ast.CaseClause:
				if inFunc > 0 {
					x.Body = instr(x.Body)
				}
			case *ast.CommClause:
				if inFunc > 0 {
					x.Body = instr(x.Body)
				}
			}
			return true
		})
	}
	for _, d := range f.Decls {
		if fd, ok := d.(*ast.FuncDecl); ok {
			inFunc = 0
			walk(fd)
		}
	}
	if sites == 0 && swapped == 0 {
		return 0, nil
	}
	if !hasSimhook {
		spec := &ast.ImportSpec{Path: &ast.BasicLit{Kind: token.STRING, Value: strconv.Quote(mod + "/simhook")}}
		added := false
		for _, d := range f.Decls {
			if gd, ok := d.(*ast.GenDecl); ok && gd.Tok == token.IMPORT {
				gd.Specs = append(gd.Specs, spec)
				if len(gd.Specs) > 1 && !gd.Lparen.IsValid() {
					gd.Lparen = gd.Pos()
				}
				added = true
				break
			}
		}
		if !added {
			f.Decls = append([]ast.Decl{&ast.GenDecl{Tok: token.IMPORT, Specs: []ast.Spec{spec}}}, f.Decls...)
		}
	}
	var buf bytes.Buffer
	if err := format.Node(&buf, fset, f); err != nil {
		return 0, err
	}
	src := buf.String()
	if swapped > 0 && syncName != "" {
		// keep the sync import in use whatever else the file takes from it
		src += "\nvar _ " + syncName + ".Locker\n"
	}
	if sites == 0 {
		// only types were swapped: the simhook import must be used
		src += "\nvar _ = simhook.Enabled\n"
	}
	return sites, os.WriteFile(path, []byte(src), 0o644)
}

func isHandYield(st ast.Stmt) bool {
	es, ok := st.(*ast.ExprStmt)
	if !ok {
		return false
	}
	call, ok := es.X.(*ast.CallExpr)
	if !ok {
		return false
	}
	sel, ok := call.Fun.(*ast.SelectorExpr)
	if !ok {
		return false
	}
	id, ok := sel.X.(*ast.Ident)
	return ok && id.Name == "simhook" && (sel.Sel.Name == "Yield" || sel.Sel.Name == "YieldOn")
}
