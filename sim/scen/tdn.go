package scen

import (
	"fmt"
	"strings"
	"sync/atomic"
	"time"

	"github.com/gobwas/ws"
	"github.com/gobwas/ws/wsutil"
	"github.com/vektah/gqlparser/v2/ast"

	"verif/sim/gql"
	"verif/sim/sched"
)

// C18: subscription teardown is safe under every interleaving.

func init() {
	Registry["C18"] = func(s *sched.Sim, cfg Config, res *Result) {
		// one run in six: subscriptions that end upstream while their connection stays open
		if s.T.Choose(6) == 0 {
			scenSUB(s, cfg, res)
			return
		}
		scenTDN(s, cfg, res)
	}
}

type tdnStep struct {
	kind string
	id   string
	sp   *subSpec
	dup  bool
}

var clientFaultKinds = map[string]string{
	"start-without-payload":     "client.start-without-payload",
	"vanish":                    "client.vanish(reset)",
	"close-without-close-frame": "client.close-without-close-frame",
	"non-json":                  "client.non-json-message",
	"binary":                    "client.binary-frame",
	"unknown-type":              "client.unknown-message-type",
}

func tdnPolicy(s *sched.Sim) sched.Policy {
	pol := sched.Policy{Deviation: []int{16, 16, 8, 3}[s.T.Choose(4)]}
	pol.Hold = map[string]bool{"clock.tick": true}
	pol.HoldNum = 15
	narrow := [][]string{
		{"sub.close.send"},
		{"sub.listen.defer", "sub.listen.queryer-closed"},
		{"sub.listen.select"},
		{"sub.reader.send", "sub.reader.done"},
		{"conn.write"},
		{"up.emit"},
		{"enter"},
	}
	switch s.T.Choose(5) {
	case 0: // hold one narrow window open as long as possible
		pol.Hold = map[string]bool{"clock.tick": true}
		for _, c := range narrow[s.T.Choose(len(narrow))] {
			pol.Hold[c] = true
		}
		pol.HoldNum = 13
	case 1: // rush through one window
		pol.Prefer = map[string]bool{}
		for _, c := range narrow[s.T.Choose(len(narrow))] {
			pol.Prefer[c] = true
		}
		pol.PreferNum = 12
	case 2:
		pol.NoSearch = map[string]bool{"start": true, "amr.send.res": true, "amr.send.err": true, "amr.done": true}
	}
	return pol
}

func scenTDN(s *sched.Sim, cfg Config, res *Result) {
	prop := "C18"
	s.Policy = tdnPolicy(s)
	_, off := parseFeat(cfg.Features)
	wf := worldFeatures(s, cfg)
	wf.Subscriptions = true
	of := opFeatures(s, cfg)
	of.MultiOp = false
	w := gql.Generate(s.T, wf, 3)
	gc := drawGwConfig(s)
	fe, err := newFedEnv(s, res, w, gc, prop)
	if err != nil {
		res.Verdict, res.Anomaly = "anomaly", "gateway start-up failed on a generated world: "+err.Error()
		return
	}
	env := newSubEnv(fe)
	nConn := 1 + s.T.Choose(2)
	byAlias := map[string]*subSpec{}
	scripts := make([][]tdnStep, nConn)
	var allSpecs []*subSpec
	for c := 0; c < nConn; c++ {
		var steps []tdnStep
		if !s.T.Bool(1, 10) {
			steps = append(steps, tdnStep{kind: "init"})
			if s.T.Bool(1, 10) {
				steps = append(steps, tdnStep{kind: "init"})
			}
		}
		k := 1 + s.T.Choose(3)
		var ids []string
		for j := 0; j < k; j++ {
			sp := &subSpec{conn: c, id: fmt.Sprintf("s%d", j+1), alias: fmt.Sprintf("ev_c%d_s%d", c, j+1)}
			dup := false
			if j > 0 && !off["duplicate-start"] && s.T.Bool(1, 4) {
				sp.id = ids[0]
				dup = true
			}
			sp.op = gql.GenOpAliased(s.T, w, w.Union, ast.Subscription, of, 3, 8, sp.alias)
			sc := &upScript{ack: "ack"}
			switch s.T.Choose(10) {
			case 0:
				sc.ack = "never-ack"
			case 1:
				sc.ack = "close-in-handshake"
			case 2:
				sc.ack = "refuse-dial"
			case 3:
				if !off["upstream-reset-in-handshake"] {
					sc.ack = "reset-after-upgrade"
				}
			}
			n := s.T.Range(0, 4)
			for e := 0; e < n; e++ {
				switch s.T.Choose(8) {
				case 0:
					sc.events = append(sc.events, upEvent{"error"})
				case 1:
					sc.events = append(sc.events, upEvent{"bad-json"})
				case 2:
					sc.events = append(sc.events, upEvent{"unknown-type"})
				default:
					sc.events = append(sc.events, upEvent{"event"})
				}
			}
			switch s.T.Choose(5) {
			case 0:
				sc.events = append(sc.events, upEvent{"complete"})
			case 1:
				sc.events = append(sc.events, upEvent{"close"})
			case 2:
				sc.events = append(sc.events, upEvent{"connection-error"})
			}
			sp.script = sc
			byAlias[sp.alias] = sp
			allSpecs = append(allSpecs, sp)
			ids = append(ids, sp.id)
			if !off["start-without-payload"] && s.T.Bool(1, 8) {
				steps = append(steps, tdnStep{kind: "start-without-payload", id: sp.id})
			} else {
				steps = append(steps, tdnStep{kind: "start", id: sp.id, sp: sp, dup: dup})
			}
		}
		// actions while subscriptions run
		m := s.T.Choose(5)
		for j := 0; j < m; j++ {
			switch s.T.Choose(7) {
			case 0, 1:
				steps = append(steps, tdnStep{kind: "stop", id: ids[s.T.Choose(len(ids))]})
			case 2:
				steps = append(steps, tdnStep{kind: "stop", id: "zz-unknown"})
			case 3:
				steps = append(steps, tdnStep{kind: "pause"})
			case 4:
				steps = append(steps, tdnStep{kind: "wait-frame", id: ids[s.T.Choose(len(ids))]})
			case 5:
				steps = append(steps, tdnStep{kind: "stop-twice", id: ids[s.T.Choose(len(ids))]})
			case 6:
				steps = append(steps, tdnStep{kind: "pause-long"})
			}
		}
		switch s.T.Choose(8) {
		case 0, 1:
			steps = append(steps, tdnStep{kind: "terminate"})
		case 2:
			steps = append(steps, tdnStep{kind: "close-frame"})
		case 3:
			steps = append(steps, tdnStep{kind: "vanish"})
		case 4:
			steps = append(steps, tdnStep{kind: "close-without-close-frame"})
		case 5:
			steps = append(steps, tdnStep{kind: "non-json"})
		case 6:
			steps = append(steps, tdnStep{kind: "binary"})
		case 7:
			steps = append(steps, tdnStep{kind: "unknown-type"})
		}
		scripts[c] = steps
	}
	env.scripts = func(svc int, query string) *upScript {
		for _, a := range sortedKeys(byAlias) {
			if strings.Contains(query, a+":") {
				return byAlias[a].script
			}
		}
		return &upScript{ack: "ack"}
	}
	{
		var d []string
		for c, st := range scripts {
			var ks []string
			for _, x := range st {
				ks = append(ks, x.kind+"("+x.id+")")
			}
			d = append(d, fmt.Sprintf("conn %d: %s", c, strings.Join(ks, " ")))
		}
		for _, sp := range allSpecs {
			var evs []string
			for _, e := range sp.script.events {
				evs = append(evs, e.kind)
			}
			d = append(d, fmt.Sprintf("upstream for conn %d %s: %s %v", sp.conn, sp.id, sp.script.ack, evs))
		}
		s.Describe(map[string]any{"gateway": gc.String(), "history": d, "policy": fmt.Sprintf("%+v", s.Policy)})
	}
	clients := make([]*wsClient, nConn)
	var finished atomic.Int32
	for c := 0; c < nConn; c++ {
		c := c
		s.Go(fmt.Sprintf("wsclient%d", c), func() {
			defer func() { finished.Add(1) }()
			cl := env.connect(fmt.Sprintf("c%d", c))
			clients[c] = cl
			if cl.dialErr != "" {
				return
			}
			for _, st := range scripts[c] {
				if cl.conn.IsClosed() {
					break
				}
				if k, ok := clientFaultKinds[st.kind]; ok {
					env.fire(k)
				}
				if st.kind == "stop" && st.id == "zz-unknown" {
					env.fire("client.stop-unknown-id")
				}
				if st.kind == "start" && st.dup {
					env.fire("client.duplicate-start-id")
				}
				switch st.kind {
				case "init":
					cl.send("connection_init", "", nil)
				case "start":
					env.pendingStarts["server-c"+fmt.Sprint(c)] = append(env.pendingStarts["server-c"+fmt.Sprint(c)], st.sp.script)
					cl.send("start", st.id, map[string]interface{}{"query": st.sp.op.Text, "variables": st.sp.op.Vars, "operationName": st.sp.op.OpName})
				case "start-without-payload":
					cl.send("start", st.id, nil)
				case "stop":
					cl.send("stop", st.id, nil)
				case "stop-twice":
					cl.send("stop", st.id, nil)
					cl.send("stop", st.id, nil)
				case "pause":
					time.Sleep(300 * time.Millisecond)
				case "pause-long":
					time.Sleep(5 * time.Second)
				case "wait-frame":
					cl.waitFrames(st.id, 1, 3*time.Second)
				case "terminate":
					cl.send("connection_terminate", "", nil)
				case "close-frame":
					wsutil.WriteClientMessage(cl.conn, ws.OpClose, ws.NewCloseFrameBody(ws.StatusNormalClosure, ""))
				case "vanish":
					cl.conn.Reset()
				case "close-without-close-frame":
					cl.conn.Close()
				case "non-json":
					cl.sendRaw([]byte("{this is not json"))
				case "binary":
					wsutil.WriteClientBinary(cl.conn, []byte{0, 1, 2, 3})
				case "unknown-type":
					cl.send("zz_unknown", "", nil)
				}
			}
			// the gateway is expected to wind the connection down now
			dl := time.Now().Add(30 * time.Second)
			for !cl.isClosed() && !cl.isReaderDone() && time.Now().Before(dl) {
				time.Sleep(100 * time.Millisecond)
			}
			cl.conn.Close()
		})
	}
	addTick(s, 8, 4100*time.Millisecond, func() bool { return env.handshaking() == 0 })
	allReturned := func() bool {
		for _, cl := range clients {
			if cl == nil || (cl.dialErr == "" && !cl.handlerReturned) {
				return false
			}
		}
		return true
	}
	upsClosed := func() bool {
		for _, u := range env.ups {
			if !u.sawEOF && !u.conn.PeerGone() {
				return false
			}
		}
		return true
	}
	defer env.closeAll()
	end := s.Run(func() bool { return int(finished.Load()) == nConn }, 1500000, 130*time.Second)
	if end == sched.StepBudget {
		res.Verdict, res.Anomaly = "anomaly", "step budget exhausted in TDN"
		return
	}
	// every client is gone now: within a simulated minute the gateway has to wind everything down
	end = s.Run(func() bool { return allReturned() && upsClosed() && subGoroutines(s) == 0 }, 1500000, 60*time.Second)
	if end == sched.StepBudget {
		res.Verdict, res.Anomaly = "anomaly", "step budget exhausted in TDN (wind-down)"
		return
	}
	res.Checks++
	var descr []string
	for c, st := range scripts {
		var ks []string
		for _, x := range st {
			k := x.kind
			if x.id != "" {
				k += "(" + x.id + ")"
			}
			ks = append(ks, k)
		}
		descr = append(descr, fmt.Sprintf("conn %d: %s", c, strings.Join(ks, " ")))
	}
	for _, sp := range allSpecs {
		var evs []string
		for _, e := range sp.script.events {
			evs = append(evs, e.kind)
		}
		descr = append(descr, fmt.Sprintf("upstream for conn %d %s: %s %v", sp.conn, sp.id, sp.script.ack, evs))
	}
	hist := strings.Join(descr, "; ")
	if int(finished.Load()) != nConn {
		res.Violate(prop+"/client-stuck", "a simulated client did not finish its script: %s parked=%v", hist, s.ParkedLabels())
	}
	for c, cl := range clients {
		if cl == nil {
			continue
		}
		if cl.dialErr != "" {
			res.Violate(prop+"/upgrade-failed", "client %d: websocket upgrade failed: %s", c, cl.dialErr)
			continue
		}
		if cl.handlerPanic != "" {
			res.Violate(prop+"/handler-panic", "the subscription handler of connection %d panicked: %s\nhistory: %s", c, cl.handlerPanic, hist)
		}
		if !cl.handlerReturned {
			res.Violate(prop+"/handler-never-returns", "the handler of connection %d has not returned 60 simulated seconds after its client went away\nhistory: %s\nparked: %v", c, hist, s.ParkedLabels())
		}
		if cl.parseErr != "" {
			res.Violate(prop+"/malformed-frame", "client %d received bytes that are not a complete well-formed message: %s\nhistory: %s", c, cl.parseErr, hist)
		}
	}
	// every upstream connection that was opened must have been closed by the gateway
	for _, u := range env.ups {
		if !u.sawEOF && !u.conn.PeerGone() {
			res.Violate(prop+"/upstream-connection-not-closed", "upstream connection %d to service %d (subscription started=%v) was never closed by the gateway\nhistory: %s", u.n, u.svc, u.started, hist)
			break
		}
	}
	if n := subGoroutines(s); n > 0 && end != sched.Done {
		var left []string
		for _, a := range s.Alive() {
			if isGatewayGoroutine(a) {
				left = append(left, a)
			}
		}
		res.Violate(prop+"/goroutine-leak:"+leakClass(left), "goroutines started by the gateway for a connection are still alive after everything ended: %v\nhistory: %s", left, hist)
	}
	for k, v := range env.fired {
		for i := 0; i < v; i++ {
			res.Fault(k)
		}
	}
	hb := 0
	frames := 0
	for _, cl := range clients {
		if cl == nil {
			continue
		}
		for _, f := range cl.frames {
			frames++
			if f.Type == "ka" {
				hb++
			}
		}
	}
	res.ProbeN("tdn.heartbeats-received", hb)
	res.ProbeN("tdn.frames-received", frames)
	res.ProbeN("tdn.upstream-connections", len(env.ups))
	res.ProbeN("tdn.close-goroutines", s.ClassFire["sub.close.send"])
	res.ProbeN("tdn.listen-defers", s.ClassFire["sub.listen.defer"])
	res.ProbeN("tdn.reader-sends", s.ClassFire["sub.reader.send"])
	res.Nontrivial = len(env.ups) >= 1 && s.ClassFire["sub.listen.defer"] >= 1
	res.Key = HashKey(w.UnionSDL, hist, gc.String(), fmt.Sprintf("%x", s.TraceHash()))
	res.SchedKey = fmt.Sprintf("%x", s.TraceHash())
	res.Sample = map[string]any{"gateway": gc.String(), "history": descr, "policy": fmt.Sprintf("%+v", s.Policy), "steps": s.Steps}
}

func isGatewayGoroutine(id string) bool {
	// goroutines announced by the hooks in /repo: sub.* (listen, close, hb, closer, reader) and
	// fan-out workers forked below them
	return strings.HasPrefix(id, "sub.")
}

func subGoroutines(s *sched.Sim) int {
	n := 0
	for _, a := range s.Alive() {
		if isGatewayGoroutine(a) {
			n++
		}
	}
	return n
}

func leakClass(ids []string) string {
	seen := map[string]bool{}
	for _, id := range ids {
		c := id
		if i := strings.Index(c, ":"); i > 0 {
			c = c[:i]
		}
		if i := strings.Index(c, "~"); i > 0 {
			c = c[:i]
		}
		seen[c] = true
	}
	return strings.Join(sortedKeys(seen), "+")
}
