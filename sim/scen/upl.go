package scen

import (
	"bytes"
	"encoding/json"
	"fmt"
	"mime/multipart"
	"net/http"
	"net/http/httptest"
	"net/textproto"
	"sort"
	"strings"
	"sync/atomic"
	"time"

	"github.com/vektah/gqlparser/v2/ast"

	"verif/sim/gql"
	"verif/sim/sched"
	"verif/sim/simnet"
)

// C19: file uploads arrive at the owning service unchanged.

func init() { Registry["C19"] = scenUPL }

type uplFile struct {
	key     string
	name    string
	content []byte
	paths   []string // "variables.x.y" (without the batch index)
}

type uplOp struct {
	text   string
	vars   map[string]interface{} // nulls at file positions
	files  []*uplFile
	fields []string // mutation root fields used
}

func quoteEscaper() *strings.Replacer { return strings.NewReplacer("\\", "\\\\", `"`, "\\\"") }

func scenUPL(s *sched.Sim, cfg Config, res *Result) {
	prop := "C19"
	s.Policy = drawPolicy(s)
	_, off := parseFeat(cfg.Features)
	wf := worldFeatures(s, cfg)
	wf.Mutations, wf.Uploads = true, true
	of := opFeatures(s, cfg)
	of.Variables = false // the generated sub-selections use literals; file variables are added by hand
	of.Directives = false
	of.NamedFragments = false // only selection sets are generated here, no fragment definitions
	maxSvc := 3
	w := gql.Generate(s.T, wf, maxSvc)
	gc := drawGwConfig(s)
	env, err := newFedEnv(s, res, w, gc, prop)
	if err != nil {
		res.Verdict, res.Anomaly = "anomaly", "gateway start-up failed on a generated world: "+err.Error()
		return
	}
	twoPaths := s.T.Bool(1, 3) && !off["file-two-paths"]
	crossVarTwoPaths := !off["file-two-paths-across-variables"]
	sharedVar := s.T.Bool(1, 2)
	if off["shared-file-variable"] {
		sharedVar = false
	}
	nameAlphabet := []string{"a.txt", "with space.bin", "ünï-cödé.dat", "q\"uote.txt", "semi;colon.txt", ""}
	nfile := 0
	sameNames := s.T.Bool(1, 3)
	if sameNames {
		res.Probe("upl.different-files-same-name")
	}
	newFile := func() *uplFile {
		nfile++
		size := []int{0, 1, 17, 300, 5000, 65536}[s.T.Choose(6)]
		content := make([]byte, size)
		seedb := byte(s.T.Choose(256))
		for i := range content {
			content[i] = byte(i*31) ^ seedb ^ byte(i>>8)
		}
		name := nameAlphabet[s.T.Choose(len(nameAlphabet)-1)]
		fname := fmt.Sprintf("%d-%s", nfile, name)
		if sameNames {
			// different files that carry the same file name
			fname = "same-name.bin"
		}
		return &uplFile{key: fmt.Sprint(nfile - 1), name: fname, content: content}
	}
	sel := func(field string) string {
		fd := w.Union.Mutation.Fields.ForName(field)
		td := w.Union.Types[fd.Type.Name()]
		if td != nil && td.Kind == ast.Object {
			o := gql.GenOp(s.T, w, w.Union, ast.Query, of, 2, 6)
			_ = o
			return " " + gql.GenSelection(s.T, w, w.Union, td, of, 3, 8)
		}
		return ""
	}
	genOp := func() *uplOp {
		u := &uplOp{vars: map[string]interface{}{}}
		var decls, roots []string
		addFileAt := func(f *uplFile, path string) { f.paths = append(f.paths, path) }
		kind := s.T.Choose(5)
		switch kind {
		case 0: // top-level Upload!
			f := newFile()
			u.files = append(u.files, f)
			u.vars["f"] = nil
			addFileAt(f, "variables.f")
			decls = append(decls, "$f: Upload!")
			roots = append(roots, "r1: mUpload(file: $f, tag: \"t\")"+sel("mUpload"))
			u.fields = append(u.fields, "mUpload")
		case 1: // list of uploads with holes (leading, middle, trailing nulls)
			ln := 2 + s.T.Choose(3)
			lst := make([]interface{}, ln)
			u.vars["fs"] = lst
			any := false
			for i := 0; i < ln; i++ {
				if s.T.Bool(1, 2) || (i == ln-1 && !any) {
					f := newFile()
					u.files = append(u.files, f)
					addFileAt(f, fmt.Sprintf("variables.fs.%d", i))
					any = true
				}
			}
			if lst[0] == nil && len(u.files) > 0 && u.files[0].paths[0] != "variables.fs.0" {
				res.Probe("upl.list-with-leading-null")
			}
			decls = append(decls, "$fs: [Upload]")
			roots = append(roots, "r1: mUploads(files: $fs)"+sel("mUploads"))
			u.fields = append(u.fields, "mUploads")
		case 2, 3: // nested input object (file, list, inner object, list of inner objects)
			in := map[string]interface{}{"label": "lbl"}
			n := 1 + s.T.Choose(3)
			for i := 0; i < n; i++ {
				f := newFile()
				u.files = append(u.files, f)
				switch s.T.Choose(4) {
				case 0:
					if _, has := in["file"]; !has {
						in["file"] = nil
						addFileAt(f, "variables.in.file")
						continue
					}
					fallthrough
				case 1:
					l, _ := in["files"].([]interface{})
					if len(l) == 0 && s.T.Bool(1, 3) {
						l = append(l, nil) // stays null: a hole before the file
					}
					l = append(l, nil)
					in["files"] = l
					addFileAt(f, fmt.Sprintf("variables.in.files.%d", len(l)-1))
				case 2:
					if _, has := in["inner"]; !has {
						in["inner"] = map[string]interface{}{"doc": nil, "note": "n"}
						addFileAt(f, "variables.in.inner.doc")
						continue
					}
					fallthrough
				case 3:
					l, _ := in["inners"].([]interface{})
					if len(l) == 0 && s.T.Bool(1, 3) {
						// a null entry before the object that carries the file
						l = append(l, nil)
					}
					l = append(l, map[string]interface{}{"doc": nil})
					in["inners"] = l
					addFileAt(f, fmt.Sprintf("variables.in.inners.%d.doc", len(l)-1))
				}
			}
			u.vars["in"] = in
			decls = append(decls, "$in: FileInput")
			roots = append(roots, "r1: mUploadIn(input: $in)"+sel("mUploadIn"))
			u.fields = append(u.fields, "mUploadIn")
			if sharedVar && kind == 3 {
				// the same variable used by a second root field (possibly owned by another service)
				roots = append(roots, "r2: mUploadIn2(input: $in)"+sel("mUploadIn2"))
				u.fields = append(u.fields, "mUploadIn2")
				res.Probe("upl.same-variable-two-root-fields")
				if w.Owner("Mutation", "mUploadIn") != w.Owner("Mutation", "mUploadIn2") {
					res.Probe("upl.same-variable-two-services")
				}
			}
		case 4: // two variables, two root fields
			f1, f2 := newFile(), newFile()
			u.files = append(u.files, f1, f2)
			u.vars["f"] = nil
			u.vars["in"] = map[string]interface{}{"file": nil}
			addFileAt(f1, "variables.f")
			addFileAt(f2, "variables.in.file")
			decls = append(decls, "$f: Upload!", "$in: FileInput")
			roots = append(roots, "r1: mUpload(file: $f)"+sel("mUpload"), "r2: mUploadIn2(input: $in, extra: null)"+sel("mUploadIn2"))
			u.fields = append(u.fields, "mUpload", "mUploadIn2")
		}
		// kind 4 would put the second path under another variable, i.e. into another sub-request:
		// a file needed by two sub-requests is an open known finding (reader consumed by the first)
		if twoPaths && len(u.files) > 0 && (kind == 2 || kind == 3 || (kind == 4 && crossVarTwoPaths)) {
			// one file used at two paths
			f := u.files[0]
			if in, ok := u.vars["in"].(map[string]interface{}); ok {
				l, _ := in["files"].([]interface{})
				l = append(l, nil)
				in["files"] = l
				addFileAt(f, fmt.Sprintf("variables.in.files.%d", len(l)-1))
				res.Probe("upl.file-at-two-paths")
			}
		}
		// a plain (non file) root field next to it, possibly at another service
		if s.T.Bool(1, 2) {
			for _, mf := range w.Mutation {
				if !strings.HasPrefix(mf.Name, "mUpload") {
					o := gql.GenRootField(s.T, w, w.Union, w.Union.Mutation, mf.Name, of, 3, 6)
					if o != "" {
						roots = append(roots, "p1: "+o)
					}
					break
				}
			}
		}
		// the operation name makes batch elements distinguishable for attribution
		u.text = fmt.Sprintf("mutation Up%d(", nfile) + strings.Join(decls, ", ") + ") { " + strings.Join(roots, " ") + " }"
		return u
	}
	batch := s.T.Bool(1, 3)
	nops := 1
	if batch {
		nops = 1 + s.T.Choose(2)
	}
	var ops []*uplOp
	for i := 0; i < nops; i++ {
		ops = append(ops, genOp())
	}
	// build the multipart request
	var body bytes.Buffer
	mw := multipart.NewWriter(&body)
	mw.SetBoundary("simupl7c1a9e")
	var opsJSON []byte
	var els []clientReq
	for _, u := range ops {
		els = append(els, clientReq{Query: u.text, Variables: u.vars})
	}
	if batch {
		opsJSON, _ = json.Marshal(els)
	} else {
		opsJSON, _ = json.Marshal(els[0])
	}
	mw.WriteField("operations", string(opsJSON))
	fmap := map[string][]string{}
	type flat struct {
		f  *uplFile
		op int
	}
	var all []flat
	for oi, u := range ops {
		for _, f := range u.files {
			all = append(all, flat{f, oi})
			for _, p := range f.paths {
				if batch {
					p = fmt.Sprintf("%d.%s", oi, p)
				}
				fmap[f.key] = append(fmap[f.key], p)
			}
		}
	}
	mj, _ := json.Marshal(fmap)
	mw.WriteField("map", string(mj))
	for _, fl := range all {
		h := make(textproto.MIMEHeader)
		h.Set("Content-Disposition", fmt.Sprintf(`form-data; name="%s"; filename="%s"`, fl.f.key, quoteEscaper().Replace(fl.f.name)))
		h.Set("Content-Type", "application/octet-stream")
		pw, _ := mw.CreatePart(h)
		pw.Write(fl.f.content)
	}
	mw.Close()
	truncated := s.T.Bool(1, 8)
	// C06 runs this scenario for one thing: a fault on a call that carries files (the multipart path)
	// must not make the gateway send the mutation a second time
	mutMode := cfg.Prop == "C06"
	faultKind := ""
	faultFired := false
	if mutMode {
		prop = "C06"
		truncated = false
		faultKind = []string{"ErrAfter", "StatusKeepBody", "ReadErr", "ErrBefore", "answer-without-data", "answer-empty-object"}[s.T.Choose(6)]
		nth := 1 + s.T.Choose(2)
		seen := 0
		env.net.FaultFor = func(m *simnet.Message) *simnet.Fault {
			if !strings.HasPrefix(m.Tag, "up#") || !strings.HasPrefix(m.ContentType, "multipart/") {
				return nil
			}
			seen++
			if seen != nth {
				return nil
			}
			faultFired = true
			switch faultKind {
			case "StatusKeepBody":
				return &simnet.Fault{Kind: "StatusKeepBody", Status: 502}
			case "ReadErr":
				return &simnet.Fault{Kind: "ReadErr", At: 4}
			case "answer-without-data":
				// the service processes the upload and answers with neither data nor errors
				return &simnet.Fault{Kind: faultKind, Mutate: func([]byte) []byte { return []byte(`{"data":null}`) }}
			case "answer-empty-object":
				return &simnet.Fault{Kind: faultKind, Mutate: func([]byte) []byte { return []byte(`{}`) }}
			}
			return &simnet.Fault{Kind: faultKind}
		}
	}
	failAt := -1
	if truncated {
		failAt = body.Len()/3 + s.T.Choose(body.Len()/2+1)
	}
	// reference: the operation with a marker in place of every file
	wants := make([]map[string]interface{}, len(ops))
	for i, u := range ops {
		vb, _ := json.Marshal(u.vars)
		var vars map[string]interface{}
		json.Unmarshal(vb, &vars)
		for _, f := range u.files {
			for _, p := range f.paths {
				setAtPath(vars, p, FileMarker(f.name, f.content))
			}
		}
		resp, _, errs := env.ref.Run(u.text, nil, vars)
		if errs != nil {
			panic(HarnessPanic("reference rejects upload operation: " + errs.Error() + "\n" + u.text))
		}
		wants[i] = resp.Data
	}
	var cr *clientResp
	var done atomic.Bool
	chunk := 1 + s.T.Choose(4096)
	withErr := s.T.Bool(1, 2)
	s.Go("client", func() {
		b := &simnet.Body{Data: body.Bytes(), FailAt: failAt, Chunks: []int{chunk}}
		if truncated && withErr {
			b.FailErr = simnet.ErrBodyReset
		}
		r := httptest.NewRequest(http.MethodPost, "/graphql", b)
		r.ContentLength = int64(body.Len())
		r.Header.Set("Content-Type", mw.FormDataContentType())
		r.Header.Set("X-Sim-Client", "up")
		pe := make([]pendingEl, len(els))
		for j, el := range els {
			vb, _ := json.Marshal(el.Variables)
			var vv map[string]interface{}
			json.Unmarshal(vb, &vv)
			pe[j] = pendingEl{key: elKey(el.Query, nil, vv), short: elKey(el.Query, nil, nil)}
		}
		env.pending["up"] = pe
		cr = env.do(r)
		done.Store(true)
	})
	end := s.Run(func() bool { return done.Load() && len(s.Alive()) == 0 }, 400000, 10*time.Second)
	if end == sched.Hang {
		res.Violate(prop+"/hang", "upload request did not finish: parked=%v", s.ParkedLabels())
		return
	} else if end == sched.StepBudget {
		res.Verdict, res.Anomaly = "anomaly", "step budget exhausted in UPL"
		return
	}
	res.Checks++
	var optexts []string
	for _, u := range ops {
		optexts = append(optexts, u.text)
	}
	if mutMode {
		if faultFired {
			res.Fault("upload-call:" + faultKind)
		}
		if cr.Panic != "" {
			res.Violate(prop+"/handler-panic", "%s\nops: %v", cr.Panic, optexts)
		}
		for oi, u := range ops {
			tag := fmt.Sprintf("up#%d", oi)
			perSvc := map[int][]string{}
			for _, wr := range env.wire {
				if wr.Tag == tag && strings.HasPrefix(strings.TrimSpace(wr.Text), "mutation") {
					how := "json"
					if wr.Multi {
						how = "multipart"
					}
					perSvc[wr.Svc] = append(perSvc[wr.Svc], how)
				}
			}
			for svc, hows := range perSvc {
				if len(hows) > 1 {
					res.Violate(prop+"/mutation-duplicated", "service %d received the mutation of one client operation %d times (%v) after fault %s on a call carrying files\nop: %s", svc, len(hows), hows, faultKind, u.text)
				}
			}
		}
		res.Nontrivial = faultFired
		res.Key = HashKey(w.UnionSDL, fmt.Sprint(w.Salt), fmt.Sprint(optexts), faultKind, fmt.Sprintf("%x", s.TraceHash()))
		res.SchedKey = fmt.Sprintf("%x", s.TraceHash())
		res.Sample = map[string]any{"services": w.ServiceSDL, "operations": optexts, "map": string(mj), "fault_on_multipart_call": faultKind, "fired": faultFired}
		return
	}
	if truncated {
		res.Fault("upload-stream-truncated")
		if cr.Panic != "" {
			res.Violate(prop+"/handler-panic-on-truncated-upload", "%s", cr.Panic)
		} else if cr.Status != 422 {
			res.Violate(prop+"/truncated-upload-status", "upload stream cut at byte %d of %d answered with status %d: %s", failAt, body.Len(), cr.Status, clipStr(string(cr.Raw), 200))
		}
		n := 0
		for range env.net.Log {
			n++
		}
		if n > 0 {
			res.Violate(prop+"/truncated-upload-forwarded", "a truncated upload caused %d downstream request(s)", n)
		}
	} else {
		switch {
		case cr.Panic != "":
			res.Violate(prop+"/handler-panic", "%s\nops: %v", cr.Panic, optexts)
		case cr.Status != 200:
			res.Violate(prop+"/status", "well-formed multipart request answered with status %d: %s\nmap: %s\noperations: %s", cr.Status, clipStr(string(cr.Raw), 300), mj, clipStr(string(opsJSON), 600))
		default:
			var results []*gwResult
			if batch {
				results = cr.Batch
			} else if cr.Single != nil {
				results = []*gwResult{cr.Single}
			}
			if len(results) != len(ops) {
				res.Violate(prop+"/result-count", "got %d results for %d operations: %s", len(results), len(ops), clipStr(string(cr.Raw), 300))
				break
			}
			for i, g := range results {
				if len(g.Errors) > 0 {
					res.Violate(prop+"/errors-nonempty", "upload operation %d answered with errors %v\nop: %s\nvariables: %v\nmap: %s", i, clipStr(fmt.Sprint(g.Errors), 300), ops[i].text, ops[i].vars, mj)
					continue
				}
				if d := compareData(wants[i], g); d != "" {
					res.Violate(prop+"/data-"+diffKind(d), "operation %d: %s\nop: %s\nvariables: %v\nmap: %s", i, d, ops[i].text, ops[i].vars, mj)
				}
			}
			// what the services received
			for oi, u := range ops {
				tag := fmt.Sprintf("up#%d", oi)
				for _, wr := range env.wire {
					if wr.Tag != tag {
						continue
					}
					uses := map[string]bool{}
					for _, v := range []string{"f", "fs", "in"} {
						if strings.Contains(wr.Text, "$"+v) {
							uses[v] = true
						}
					}
					// expected files for this sub-request: files whose variable it uses
					exp := map[string]*uplFile{}
					for _, f := range u.files {
						for _, p := range f.paths {
							v := strings.Split(p, ".")[1]
							if uses[v] {
								exp[p] = f
							}
						}
					}
					if len(exp) == 0 {
						if wr.Multi {
							res.Violate(prop+"/file-sent-to-service-not-using-it", "service %d received a multipart request although its sub-request uses no file variable: %s", wr.Svc, wr.Text)
						}
						continue
					}
					if !wr.Multi {
						res.Violate(prop+"/file-not-forwarded", "service %d uses file variable(s) %v but received plain JSON (variables %v)\nsub-request: %s\nclient op: %s", wr.Svc, keysOf(uses), wr.Vars, wr.Text, u.text)
						continue
					}
					got := map[string]string{}
					for k, paths := range wr.FMap {
						for _, p := range paths {
							got[p] = k
						}
					}
					for _, p := range sortedKeys(exp) {
						f := exp[p]
						k, ok := got[p]
						if !ok {
							res.Violate(prop+"/path-not-mapped", "service %d: path %s of the client's file map is not in the forwarded map %v\nclient op: %s", wr.Svc, p, wr.FMap, u.text)
							continue
						}
						if wr.FileNames[k] != f.name {
							res.Violate(prop+"/file-name-changed", "service %d: path %s carries file name %q, the client sent %q", wr.Svc, p, wr.FileNames[k], f.name)
						}
						if !bytes.Equal(wr.Files[k], f.content) {
							res.Violate(prop+"/file-bytes-changed", "service %d: path %s carries %d bytes, the client sent %d bytes (file %q); client op: %s map: %s", wr.Svc, p, len(wr.Files[k]), len(f.content), f.name, u.text, mj)
						}
						if v, ok := getAtPath(wr.RawVars, p); !ok || v != nil {
							res.Violate(prop+"/variable-not-null-at-file-path", "service %d: JSON variables at %s are %v (want null)", wr.Svc, p, v)
						}
					}
					for p := range got {
						if exp[p] == nil {
							res.Violate(prop+"/unexpected-file-path", "service %d received a file at path %s which the client did not map; client op: %s", wr.Svc, p, u.text)
						}
					}
					res.Probe("upl.multipart-forwarded")
				}
			}
		}
	}
	nf := 0
	var sizes []int
	for _, u := range ops {
		nf += len(u.files)
		for _, f := range u.files {
			sizes = append(sizes, len(f.content))
		}
	}
	sort.Ints(sizes)
	res.ProbeN("upl.files", nf)
	res.ProbeN("upl.batch", b2i(batch))
	res.Nontrivial = nf >= 1 && !truncated
	res.Key = HashKey(w.UnionSDL, strings.Join(optexts, "|"), string(mj), fmt.Sprint(sizes), gc.String(), fmt.Sprintf("%x", s.TraceHash()))
	res.SchedKey = fmt.Sprintf("%x", s.TraceHash())
	res.Sample = map[string]any{"services": w.ServiceSDL, "gateway": gc.String(), "operations": optexts, "file_map": fmap, "file_sizes": sizes, "batch": batch, "truncated_at": failAt}
}

func keysOf(m map[string]bool) []string {
	var out []string
	for k := range m {
		out = append(out, k)
	}
	sort.Strings(out)
	return out
}
