package scen

import (
	"encoding/json"
	"fmt"
	"sort"
	"strings"

	"github.com/buildbuildio/pebbles/planner"
	"github.com/vektah/gqlparser/v2"
	"github.com/vektah/gqlparser/v2/ast"

	"verif/sim/gql"
)

// ---- C02: every sub-request valid for, and owned by, the service it is sent to ----

type selTuple struct {
	path   string // response-key path of the parent object, "." separated
	parent string // concrete parent type
	field  string
	key    string
}

func (t selTuple) String() string {
	return fmt.Sprintf("%s:%s.%s as %s", t.path, t.parent, t.field, t.key)
}

// clientTuples walks the client operation and lists every field selected on a concrete object
// parent type (fields under abstract parents are covered dynamically by C01, see DESIGN.md).
func clientTuples(schema *ast.Schema, op *ast.OperationDefinition, rootType string) []selTuple {
	var out []selTuple
	var walk func(ss ast.SelectionSet, parent *ast.Definition, path []string, concrete bool, seenFrag map[string]bool)
	walk = func(ss ast.SelectionSet, parent *ast.Definition, path []string, concrete bool, seenFrag map[string]bool) {
		for _, sel := range ss {
			switch s := sel.(type) {
			case *ast.Field:
				key := s.Alias
				if key == "" {
					key = s.Name
				}
				if concrete && parent != nil && parent.Kind == ast.Object && !strings.HasPrefix(s.Name, "__") {
					out = append(out, selTuple{path: strings.Join(path, "."), parent: parent.Name, field: s.Name, key: key})
				}
				if len(s.SelectionSet) > 0 && s.Definition != nil && !strings.HasPrefix(s.Name, "__") {
					// (introspection fields are answered by the gateway itself)
					ft := schema.Types[s.Definition.Type.Name()]
					walk(s.SelectionSet, ft, append(append([]string{}, path...), key), concrete && ft != nil && ft.Kind == ast.Object, map[string]bool{})
				}
			case *ast.InlineFragment:
				p := parent
				c := concrete
				if s.TypeCondition != "" {
					p = schema.Types[s.TypeCondition]
					// a fragment with an object type condition makes the parent concrete again
					if p != nil && p.Kind == ast.Object {
						c = true
					} else {
						c = false
					}
					if parent != nil && parent.Kind == ast.Object && p != nil && p.Kind != ast.Object {
						// abstract condition on a concrete parent: fields are selected on the concrete parent
						p, c = parent, concrete
					}
				}
				walk(s.SelectionSet, p, path, c, seenFrag)
			case *ast.FragmentSpread:
				if seenFrag[s.Name] || s.Definition == nil {
					continue
				}
				seenFrag[s.Name] = true
				p := schema.Types[s.Definition.TypeCondition]
				c := p != nil && p.Kind == ast.Object
				if parent != nil && parent.Kind == ast.Object && p != nil && p.Kind != ast.Object {
					p, c = parent, concrete
				}
				walk(s.Definition.SelectionSet, p, path, c, seenFrag)
			}
		}
	}
	root := schema.Types[rootType]
	walk(op.SelectionSet, root, nil, true, map[string]bool{})
	return out
}

// stepTuples lists what one plan step selects, in absolute response-key paths.
func stepTuples(schema *ast.Schema, st *planner.QueryPlanStep) []selTuple {
	var out []selTuple
	base := []string{}
	for _, p := range st.InsertionPoint {
		base = append(base, p)
	}
	ss := st.SelectionSet
	parent := schema.Types[st.ParentType]
	// unwrap node(id: $id) { ... on T { } }
	if len(st.InsertionPoint) > 0 && len(ss) == 1 {
		if f, ok := ss[0].(*ast.Field); ok && f.Name == "node" {
			ss = f.SelectionSet
		}
	}
	var walk func(ss ast.SelectionSet, parent *ast.Definition, path []string)
	walk = func(ss ast.SelectionSet, parent *ast.Definition, path []string) {
		for _, sel := range ss {
			switch s := sel.(type) {
			case *ast.Field:
				key := s.Alias
				if key == "" {
					key = s.Name
				}
				pn := ""
				if parent != nil {
					pn = parent.Name
				}
				out = append(out, selTuple{path: strings.Join(path, "."), parent: pn, field: s.Name, key: key})
				if len(s.SelectionSet) > 0 {
					var ft *ast.Definition
					if s.Definition != nil && s.Definition.Type != nil {
						ft = schema.Types[s.Definition.Type.Name()]
					}
					walk(s.SelectionSet, ft, append(append([]string{}, path...), key))
				}
			case *ast.InlineFragment:
				p := parent
				if s.TypeCondition != "" {
					if d := schema.Types[s.TypeCondition]; d != nil && d.Kind == ast.Object {
						p = d
					}
				}
				walk(s.SelectionSet, p, path)
			}
		}
	}
	walk(ss, parent, base)
	return out
}

func effectiveVar(def *ast.VariableDefinition, vars map[string]interface{}) (interface{}, bool) {
	if v, ok := vars[def.Variable]; ok {
		return gql.ToJSONValue(v), true
	}
	if def.DefaultValue != nil {
		return gql.ToJSONValue(gql.ConstValue(def.DefaultValue)), true
	}
	return nil, false
}

func checkC02(env *fedEnv, res *Result, ops []*fedOp) {
	gwSchema := env.w.Union
	byTag := map[string]*fedOp{}
	for _, fo := range ops {
		byTag[fo.client+"#0"] = fo
	}
	for _, wr := range env.wire {
		res.Checks++
		fo := byTag[wr.Tag]
		opText := ""
		if fo != nil {
			opText = fo.op.Text
		}
		if !wr.Valid {
			rule := wr.Problem
			if i := strings.Index(rule, ":"); i > 0 && i < 40 {
				rule = rule[:i]
			} else {
				rule = "parse-or-variables"
			}
			rule = strings.ReplaceAll(rule, " ", "-")
			res.Violate("C02/invalid-subrequest:"+rule, "service %d received a request that is not valid against its own schema: %s\nsub-request: %s\nvariables: %v\nclient operation: %s", wr.Svc, wr.Problem, wr.Text, wr.Vars, opText)
			continue
		}
		if fo == nil {
			res.Violate("C02/unattributed-subrequest", "service %d received a request that belongs to no client operation (tag %s): %s", wr.Svc, wr.Tag, wr.Text)
			continue
		}
		// the wire text is the text of a plan step routed to that service
		found := false
		for _, p := range env.plans[wr.Tag] {
			for _, st := range planSteps(p) {
				if st.URL == env.w.URLs[wr.Svc] && st.QueryString == wr.Text {
					found = true
				}
			}
		}
		if !found {
			res.Violate("C02/wire-not-in-plan", "service %d received a request whose text is not a step of the recorded plan for that service: %s", wr.Svc, wr.Text)
		}
		// every client variable the sub-request uses arrives with the client's value or default
		doc, errs := gqlparser.LoadQuery(env.w.Services[wr.Svc], wr.Text)
		if errs != nil || len(doc.Operations) == 0 {
			continue
		}
		sop := doc.Operations[0]
		if wr.OpName != nil && doc.Operations.ForName(*wr.OpName) != nil {
			sop = doc.Operations.ForName(*wr.OpName)
		}
		for _, vd := range sop.VariableDefinitions {
			cdef := fo.op.Def.VariableDefinitions.ForName(vd.Variable)
			if cdef == nil {
				// the stitched id (or a variable the client never declared)
				if vd.Variable == "id" {
					continue
				}
				res.Violate("C02/unknown-variable", "sub-request declares $%s which the client operation does not declare: %s", vd.Variable, wr.Text)
				continue
			}
			if vd.Variable == "id" && isNodeLookup(sop) && countVarUses(sop.SelectionSet, "id") == 1 {
				// the gateway's own $id of a node lookup; the client's $id is not used in this step
				continue
			}
			want, wok := effectiveVar(cdef, fo.op.Vars)
			got, gok := effectiveVar(vd, wr.Vars)
			if wok != gok || (wok && gql.Diff("$"+vd.Variable, want, got) != "") {
				wj, _ := json.Marshal(want)
				gj, _ := json.Marshal(got)
				res.Violate("C02/variable-value-lost", "client variable $%s has effective value %s (present=%v) but the sub-request to service %d carries %s (present=%v)\nsub-request: %s\nvariables sent: %v\nclient operation: %s\nclient variables: %v", vd.Variable, wj, wok, wr.Svc, gj, gok, wr.Text, wr.Vars, fo.op.Text, fo.op.Vars)
			}
		}
	}
	// per translation: coverage and helper bookkeeping, on the recorded plan
	for _, fo := range ops {
		tag := fo.client + "#0"
		plans := env.plans[tag]
		if len(plans) == 0 || plans[0] == nil {
			continue
		}
		plan := plans[0]
		res.Checks++
		root := map[ast.Operation]string{ast.Query: "Query", ast.Mutation: "Mutation", ast.Subscription: "Subscription"}[fo.op.Def.Operation]
		want := clientTuples(gwSchema, fo.op.Def, root)
		type have struct {
			t   selTuple
			svc int
		}
		var got []have
		for _, st := range planSteps(plan) {
			svc := -1
			for i, u := range env.w.URLs {
				if u == st.URL {
					svc = i
				}
			}
			for _, t := range stepTuples(gwSchema, st) {
				got = append(got, have{t, svc})
			}
		}
		for _, wt := range want {
			ok := false
			wrongSvc := -1
			for _, h := range got {
				if h.t.path == wt.path && h.t.field == wt.field && h.t.key == wt.key {
					if h.svc >= 0 {
						if d := env.w.Services[h.svc].Types[wt.parent]; d != nil && d.Fields.ForName(wt.field) != nil {
							ok = true
							break
						}
						wrongSvc = h.svc
					}
				}
			}
			if !ok {
				if wrongSvc >= 0 {
					res.Violate("C02/field-routed-to-service-lacking-it", "client-selected field %s is only requested from service %d which does not declare it\nclient operation: %s", wt, wrongSvc, fo.op.Text)
				} else {
					res.Violate("C02/field-dropped", "client-selected field %s is requested from no service\nclient operation: %s\nplan: %s", wt, fo.op.Text, planText(plan))
				}
			}
		}
		// helpers
		wantSet := map[string]bool{}
		for _, wt := range want {
			wantSet[wt.path+"\x00"+wt.key+"\x00"+wt.field] = true
		}
		for _, h := range got {
			if wantSet[h.t.path+"\x00"+h.t.key+"\x00"+h.t.field] || h.svc < 0 {
				continue
			}
			switch h.t.field {
			case "node":
				continue
			case "id", "__typename":
				if h.t.field == "__typename" {
					// a client __typename is not in want (builtin): tolerate when the client asked for it at that path
					if clientAsksTypename(fo.op.Def, strings.Split(h.t.path, ".")) {
						continue
					}
				}
				if abstractOnPath(gwSchema, fo.op.Def, root, h.t.path) {
					continue
				}
				sf := plan.ScrubFields
				registered := false
				if sf != nil {
					for _, fields := range sf[h.t.path] {
						for _, f := range fields {
							if f == h.t.field {
								registered = true
							}
						}
					}
				}
				if !registered {
					res.Violate("C02/helper-not-registered", "plan adds helper field %s at path %q which the client did not select and which is not registered for removal\nclient operation: %s", h.t.field, h.t.path, fo.op.Text)
				}
			default:
				if abstractOnPath(gwSchema, fo.op.Def, root, h.t.path) {
					continue
				}
				res.Violate("C02/extra-field", "plan requests %s which the client did not select\nclient operation: %s", h.t, fo.op.Text)
			}
		}
	}
}

func planText(p *planner.QueryPlan) string {
	var parts []string
	for _, st := range planSteps(p) {
		parts = append(parts, fmt.Sprintf("[%s @%v] %s", st.URL, st.InsertionPoint, strings.Join(strings.Fields(st.QueryString), " ")))
	}
	return strings.Join(parts, " ;; ")
}

// clientAsksTypename: does the client select __typename in the selection set at that response path?
func clientAsksTypename(op *ast.OperationDefinition, path []string) bool {
	if len(path) == 1 && path[0] == "" {
		path = nil
	}
	var find func(ss ast.SelectionSet, rest []string, seen map[string]bool) bool
	find = func(ss ast.SelectionSet, rest []string, seen map[string]bool) bool {
		for _, sel := range ss {
			switch s := sel.(type) {
			case *ast.Field:
				key := s.Alias
				if key == "" {
					key = s.Name
				}
				if len(rest) == 0 {
					if s.Name == "__typename" {
						return true
					}
					continue
				}
				if key == rest[0] && find(s.SelectionSet, rest[1:], map[string]bool{}) {
					return true
				}
			case *ast.InlineFragment:
				if find(s.SelectionSet, rest, seen) {
					return true
				}
			case *ast.FragmentSpread:
				if s.Definition != nil && !seen[s.Name] {
					seen[s.Name] = true
					if find(s.Definition.SelectionSet, rest, seen) {
						return true
					}
				}
			}
		}
		return false
	}
	return find(op.SelectionSet, path, map[string]bool{})
}

// abstractOnPath: is any object on the response path (including the last) of abstract type?
func abstractOnPath(schema *ast.Schema, op *ast.OperationDefinition, root string, path string) bool {
	if path == "" {
		return false
	}
	parts := strings.Split(path, ".")
	var find func(ss ast.SelectionSet, rest []string, seen map[string]bool) (bool, bool)
	find = func(ss ast.SelectionSet, rest []string, seen map[string]bool) (found bool, abstract bool) {
		for _, sel := range ss {
			switch s := sel.(type) {
			case *ast.Field:
				key := s.Alias
				if key == "" {
					key = s.Name
				}
				if key != rest[0] || s.Definition == nil {
					continue
				}
				d := schema.Types[s.Definition.Type.Name()]
				abs := d != nil && (d.Kind == ast.Interface || d.Kind == ast.Union)
				if len(rest) == 1 {
					return true, abs
				}
				f, a := find(s.SelectionSet, rest[1:], map[string]bool{})
				if f {
					return true, abs || a
				}
			case *ast.InlineFragment:
				if f, a := find(s.SelectionSet, rest, seen); f {
					return true, a
				}
			case *ast.FragmentSpread:
				if s.Definition != nil && !seen[s.Name] {
					seen[s.Name] = true
					if f, a := find(s.Definition.SelectionSet, rest, seen); f {
						return true, a
					}
				}
			}
		}
		return false, false
	}
	_, a := find(op.SelectionSet, parts, map[string]bool{})
	return a
}

// ---- C12: round trips bounded by plan shape ----

func checkC12(env *fedEnv, res *Result, ops []*fedOp) {
	for _, fo := range ops {
		tag := fo.client + "#0"
		plans := env.plans[tag]
		if len(plans) == 0 || plans[0] == nil || fo.resp == nil || !fo.resp.Done {
			continue
		}
		res.Checks++
		levels := levelsPerURL(plans[0])
		calls := map[string]int{}
		for _, c := range env.calls {
			if c.Tag != tag {
				continue
			}
			calls[c.URL]++
			// identical id-only lookups are sent once per call
			seen := map[string]int{}
			for _, r := range c.Reqs {
				if len(r.Variables) == 1 {
					if id, ok := r.Variables["id"]; ok {
						k := fmt.Sprintf("%v\x00%s", id, r.Query)
						seen[k]++
						if seen[k] == 2 {
							res.Violate("C12/duplicate-lookup", "one call to %s carries the same lookup twice: id=%v %s", c.URL, id, strings.Join(strings.Fields(r.Query), " "))
						}
					}
				}
			}
			if len(c.Reqs) > 1 {
				res.Probe("c12.batched-lookups-in-one-call")
			}
		}
		for u, n := range calls {
			if n > levels[u] {
				res.Violate("C12/too-many-calls", "%d Query calls to %s for one operation whose plan has that service on %d level(s)\nop: %s\nplan: %s", n, u, levels[u], fo.op.Text, planText(plans[0]))
			}
		}
		// the de-duplicated answers were fanned out to every place: the answer equals the reference
		cr := fo.resp
		if cr.Single != nil && len(cr.Single.Errors) == 0 {
			if d := compareData(fo.want, cr.Single); d != "" {
				res.Violate("C12/answer-differs-"+diffKind(d), "%s\nop: %s", d, fo.op.Text)
			}
			if hasRepeatedEntity(cr.Single.Data) {
				res.Probe("c12.same-entity-repeated-in-a-list")
			}
		} else if cr.Single != nil {
			res.Violate("C12/errors-nonempty", "valid operation answered with errors %v\nop: %s", clipStr(fmt.Sprint(cr.Single.Errors), 300), fo.op.Text)
		}
	}
}

func hasRepeatedEntity(v interface{}) bool {
	switch vv := v.(type) {
	case map[string]interface{}:
		for _, c := range vv {
			if hasRepeatedEntity(c) {
				return true
			}
		}
	case []interface{}:
		ids := map[string]int{}
		for _, c := range vv {
			if m, ok := c.(map[string]interface{}); ok {
				if id, ok := m["id"].(string); ok {
					ids[id]++
					if ids[id] > 1 {
						return true
					}
				}
			}
			if hasRepeatedEntity(c) {
				return true
			}
		}
	}
	return false
}

var _ = sort.Strings

// isNodeLookup: the sub-request is the gateway's node(id: $id) lookup.
func isNodeLookup(op *ast.OperationDefinition) bool {
	if len(op.SelectionSet) != 1 {
		return false
	}
	f, ok := op.SelectionSet[0].(*ast.Field)
	if !ok || f.Name != "node" || f.Alias != "node" {
		return false
	}
	a := f.Arguments.ForName("id")
	return a != nil && a.Value != nil && a.Value.Kind == ast.Variable && a.Value.Raw == "id"
}

// countVarUses counts the uses of $name in arguments and directives below sel.
func countVarUses(sel ast.SelectionSet, name string) int {
	n := 0
	var val func(v *ast.Value)
	val = func(v *ast.Value) {
		if v == nil {
			return
		}
		if v.Kind == ast.Variable && v.Raw == name {
			n++
		}
		for _, c := range v.Children {
			val(c.Value)
		}
	}
	dirs := func(ds ast.DirectiveList) {
		for _, d := range ds {
			for _, a := range d.Arguments {
				val(a.Value)
			}
		}
	}
	var walk func(ss ast.SelectionSet)
	walk = func(ss ast.SelectionSet) {
		for _, s := range ss {
			switch x := s.(type) {
			case *ast.Field:
				for _, a := range x.Arguments {
					val(a.Value)
				}
				dirs(x.Directives)
				walk(x.SelectionSet)
			case *ast.InlineFragment:
				dirs(x.Directives)
				walk(x.SelectionSet)
			case *ast.FragmentSpread:
				dirs(x.Directives)
				if x.Definition != nil {
					walk(x.Definition.SelectionSet)
				}
			}
		}
	}
	walk(sel)
	return n
}
