package scen

import (
	"bytes"
	"context"
	"encoding/json"
	"fmt"
	"io"
	"mime"
	"mime/multipart"
	"net/http"
	"sort"
	"strings"
	"time"

	"github.com/buildbuildio/pebbles/queryer"
	"github.com/buildbuildio/pebbles/requests"

	"verif/sim/sched"
	"verif/sim/simnet"
)

// C11: the real queryer.MultiOpQueryer alone on the simulated transport against an echo service.

func init() { Registry["C11"] = scenQRY }

type wireReq struct {
	Query         string                 `json:"query"`
	Variables     map[string]interface{} `json:"variables"`
	OperationName *string                `json:"operationName"`
}

// parseWire decodes what a service received: a JSON batch or a multipart single request.
func parseWire(m *simnet.Message) (reqs []wireReq, multipartReq bool, files map[string][]byte, fileNames map[string]string, fmap map[string][]string, err error) {
	mt, params, _ := mime.ParseMediaType(m.ContentType)
	if mt == "multipart/form-data" {
		mr := multipart.NewReader(bytes.NewReader(m.Body), params["boundary"])
		form, e := mr.ReadForm(64 << 20)
		if e != nil {
			return nil, true, nil, nil, nil, e
		}
		var one wireReq
		ops := ""
		if v := form.Value["operations"]; len(v) > 0 {
			ops = v[0]
		}
		if e := json.Unmarshal([]byte(ops), &one); e != nil {
			return nil, true, nil, nil, nil, fmt.Errorf("operations: %v", e)
		}
		fmap = map[string][]string{}
		if v := form.Value["map"]; len(v) > 0 {
			if e := json.Unmarshal([]byte(v[0]), &fmap); e != nil {
				return nil, true, nil, nil, nil, fmt.Errorf("map: %v", e)
			}
		}
		files = map[string][]byte{}
		fileNames = map[string]string{}
		for k, fhs := range form.File {
			for _, fh := range fhs {
				f, e := fh.Open()
				if e != nil {
					return nil, true, nil, nil, nil, e
				}
				b, _ := io.ReadAll(f)
				f.Close()
				files[k] = b
				fileNames[k] = fh.Filename
			}
		}
		return []wireReq{one}, true, files, fileNames, fmap, nil
	}
	if e := json.Unmarshal(m.Body, &reqs); e != nil {
		return nil, false, nil, nil, nil, e
	}
	return reqs, false, nil, nil, nil, nil
}

func scenQRY(s *sched.Sim, cfg Config, res *Result) {
	maxN, maxM := 13, 6
	if cfg.Thorough {
		maxN, maxM = 40, 12
	}
	pol := sched.Policy{Deviation: []int{16, 16, 4}[s.T.Choose(3)]}
	if s.T.Bool(1, 3) {
		pol.NoSearch = map[string]bool{"start": true, "amr.send.res": true, "amr.send.err": true, "amr.done": true}
	}
	s.Policy = pol
	N := s.T.Range(0, maxN)
	m := s.T.Range(1, maxM)
	withFiles := s.T.Bool(1, 5)
	nFaults := []int{0, 0, 0, 1, 1, 2}[s.T.Choose(6)]
	kinds := []string{"ErrBefore", "ErrAfter", "Status", "ReadErr", "not-json", "element-errors", "not-array", "Cancelled", "DeadlineExceeded", "element-no-data", "ReadErrEnd", "answer-twice"}
	type fplan struct {
		ordinal int
		kind    string
	}
	var plans []fplan
	for i := 0; i < nFaults; i++ {
		plans = append(plans, fplan{ordinal: s.T.Range(1, 6), kind: kinds[s.T.Choose(len(kinds))]})
	}

	net := simnet.NewNet(s)
	url := "http://svc-a/query"
	net.Handlers[url] = func(msg *simnet.Message) (int, []byte) {
		reqs, mp, _, _, _, err := parseWire(msg)
		if err != nil {
			return 400, []byte(`{"error":"bad request"}`)
		}
		out := make([]map[string]any, len(reqs))
		for i, r := range reqs {
			out[i] = map[string]any{"data": map[string]any{"echo": r.Query}}
		}
		var b []byte
		if mp {
			b, _ = json.Marshal(out[0])
		} else {
			b, _ = json.Marshal(out)
		}
		return 200, b
	}
	faultsFired := 0
	net.FaultFor = func(msg *simnet.Message) *simnet.Fault {
		ord := 0
		for _, o := range net.Log {
			if o.Fault != "" || o.Delivered {
				ord++
			}
		}
		ord++ // this one
		for _, p := range plans {
			if p.ordinal == ord {
				faultsFired++
				switch p.kind {
				case "ErrBefore", "ErrAfter":
					return &simnet.Fault{Kind: p.kind}
				case "Cancelled":
					// the caller's context ends while this call is in flight
					return &simnet.Fault{Kind: "ErrAfter", Err: context.Canceled}
				case "DeadlineExceeded":
					return &simnet.Fault{Kind: "ErrBefore", Err: context.DeadlineExceeded}
				case "Status":
					return &simnet.Fault{Kind: "Status", Status: 503, Body: []byte(`{"errors":[{"message":"unavailable"}]}`)}
				case "ReadErr":
					return &simnet.Fault{Kind: "ReadErr", At: 3}
				case "not-json":
					return &simnet.Fault{Kind: "not-json", Mutate: func([]byte) []byte { return []byte("<html>oops</html>") }}
				case "ReadErrEnd":
					// the connection is lost after the complete answer, before the announced length
					return &simnet.Fault{Kind: "ReadErr", At: 1 << 30}
				case "answer-twice":
					return &simnet.Fault{Kind: "answer-twice", Mutate: func(b []byte) []byte { return append(append([]byte{}, b...), b...) }}
				case "element-no-data":
					// one element with neither data nor errors
					return &simnet.Fault{Kind: "element-no-data", Mutate: func(b []byte) []byte {
						if len(b) > 0 && b[0] == '{' {
							return []byte(`{"data":null}`)
						}
						var arr []map[string]any
						json.Unmarshal(b, &arr)
						if len(arr) == 0 {
							return b
						}
						arr[len(arr)/2] = map[string]any{"data": nil}
						nb, _ := json.Marshal(arr)
						return nb
					}}
				case "not-array":
					return &simnet.Fault{Kind: "not-array", Mutate: func(b []byte) []byte {
						if len(b) > 0 && b[0] == '{' {
							return []byte(`["x"]`)
						}
						return []byte(`{"data":{"echo":"x"}}`)
					}}
				case "element-errors":
					return &simnet.Fault{Kind: "element-errors", Mutate: func(b []byte) []byte {
						if len(b) > 0 && b[0] == '{' {
							return []byte(`{"data":null,"errors":[{"message":"boom","extensions":{"c":1}}]}`)
						}
						var arr []map[string]any
						json.Unmarshal(b, &arr)
						if len(arr) == 0 {
							return b
						}
						arr[len(arr)/2] = map[string]any{"data": nil, "errors": []any{map[string]any{"message": "boom", "extensions": map[string]any{"c": 1}}}}
						nb, _ := json.Marshal(arr)
						return nb
					}}
				}
			}
		}
		return nil
	}

	inputs := make([]*requests.Request, N)
	fileAt := map[int]bool{}
	for i := range inputs {
		inputs[i] = &requests.Request{Query: fmt.Sprintf("q%d", i), Variables: map[string]interface{}{"i": i}}
		if withFiles && s.T.Bool(1, 4) {
			fileAt[i] = true
			inputs[i].Variables["f"] = &requests.Upload{File: io.NopCloser(strings.NewReader(fmt.Sprintf("content-%d", i))), FileName: fmt.Sprintf("f%d.txt", i)}
		}
	}
	q := queryer.NewMultiOpQueryer(url, m).WithHTTPClient(&http.Client{Transport: &simnet.Transport{Net: net, Tag: "op0"}})

	s.Describe(map[string]any{"N": N, "maxBatchSize": m, "fault_plan": fmt.Sprint(plans), "with_files": withFiles})
	var returned bool
	var got []map[string]interface{}
	var gotErr error
	s.Go("caller", func() {
		got, gotErr = q.Query(inputs)
		returned = true
	})
	end := s.Run(func() bool { return returned && len(s.Alive()) == 0 }, 20000, 5*time.Second)
	if end == sched.Hang {
		if !returned {
			res.Violate("C11/hang", "Query did not return; parked=%v", s.ParkedLabels())
		} else {
			res.Violate("C11/goroutine-leak", "goroutines alive after return: %v", s.Alive())
		}
	} else if end == sched.StepBudget {
		res.Verdict, res.Anomaly = "anomaly", "step budget exhausted in QRY"
	}
	// history
	seen := map[string]int{}
	calls := 0
	maxPer := 0
	failed := 0
	for _, msg := range net.Log {
		if msg.Fault != "" {
			failed++
		}
		reqs, mp, _, _, _, err := parseWire(msg)
		if err != nil {
			res.Violate("C11/unparseable-call", "call %d is not a decodable request: %v", msg.Seq, err)
			continue
		}
		calls++
		if !mp && len(reqs) > maxPer {
			maxPer = len(reqs)
		}
		for _, r := range reqs {
			seen[r.Query]++
		}
		if len(reqs) == 0 {
			res.Probe("qry.empty-http-call")
		}
	}
	if returned {
		res.Checks++
		if maxPer > m {
			res.Violate("C11/call-too-large", "a call carried %d requests, max batch size is %d (N=%d)", maxPer, m, N)
		}
		for i := 0; i < N; i++ {
			k := seen[fmt.Sprintf("q%d", i)]
			if k > 1 || (k != 1 && failed == 0) {
				res.Violate("C11/request-count", "request %d was sent in %d HTTP calls (N=%d m=%d)", i, k, N, m)
			}
		}
		for k := range seen {
			if !strings.HasPrefix(k, "q") {
				res.Violate("C11/unknown-request", "service received a request nobody made: %q", k)
			}
		}
		if failed > 0 {
			if gotErr == nil {
				res.Violate("C11/failure-not-reported", "%d call(s) failed but Query returned no error (N=%d m=%d)", failed, N, m)
			}
			if got != nil {
				res.Violate("C11/partial-results", "Query returned an error together with %d results", len(got))
			}
		} else {
			if gotErr != nil {
				res.Violate("C11/spurious-error", "no fault injected but Query returned %v", gotErr)
			} else if len(got) != N {
				res.Violate("C11/result-count", "got %d results for %d requests (m=%d)", len(got), N, m)
			} else {
				for i, r := range got {
					if r == nil || r["echo"] != fmt.Sprintf("q%d", i) {
						res.Violate("C11/result-order", "result %d answers %v (N=%d m=%d)", i, r, N, m)
						break
					}
				}
			}
		}
	}
	chunks := 0
	if N > m {
		chunks = N/m + 1
	}
	res.Nontrivial = N > m && s.Steps > 4
	res.Key = HashKey(fmt.Sprint(N, m, withFiles, plans), fmt.Sprintf("%x", s.TraceHash()))
	res.SchedKey = fmt.Sprintf("%x", s.TraceHash())
	res.Cover = append(res.Cover, fmt.Sprintf("N=%d,m=%d", N, m))
	res.ProbeN("qry.chunked", b2i(N > m))
	res.ProbeN("qry.boundary-N=k*m", b2i(N > m && N%m == 0))
	res.ProbeN("qry.boundary-N=k*m+1", b2i(N > m && N%m == 1))
	res.ProbeN("qry.boundary-N=k*m-1", b2i(N > m && N%m == m-1))
	res.ProbeN("qry.answers-overtook", net.Overtakes)
	res.ProbeN("qry.failed-call", failed)
	res.ProbeN("qry.files", len(fileAt))
	for k, v := range net.Fired {
		for i := 0; i < v; i++ {
			res.Fault(k)
		}
	}
	var fs []int
	for i := range fileAt {
		fs = append(fs, i)
	}
	sort.Ints(fs)
	res.Sample = map[string]any{"N": N, "maxBatchSize": m, "chunks": chunks, "http_calls": calls, "file_inputs": fs,
		"fault_plan(kth delivered call, kind)": fmt.Sprint(plans), "returned_results": len(got), "returned_error": fmt.Sprint(gotErr)}
}
