// Package scen holds one scenario family per file. A scenario is a function of a simulator
// (tape + scheduler) and a tier configuration; it builds the system under test inside the
// current synctest bubble, drives it and returns a Result.
package scen

import (
	"crypto/sha256"
	"encoding/hex"
	"fmt"
	"sort"
	"strings"

	"verif/sim/sched"
)

type Config struct {
	Prop     string
	Tier     string // quick | thorough
	Thorough bool
	// Finding, when set, makes the scenario build the dedicated configuration that is known
	// to reproduce the named known finding (used by the stale-finding sub-runs)
	Finding string
	// Features force-enabled / force-disabled (comma list, "-name" disables) - for experiments
	Features string
}

type Violation struct {
	Signature string `json:"signature"`
	Detail    string `json:"detail"`
}

type Result struct {
	Prop       string         `json:"prop"`
	Seed       uint64         `json:"seed"`
	Verdict    string         `json:"verdict"` // ok | violation | anomaly
	Violations []Violation    `json:"violations,omitempty"`
	Anomaly    string         `json:"anomaly,omitempty"`
	Nontrivial bool           `json:"nontrivial"`
	Key        string         `json:"key"`
	SchedKey   string         `json:"sched_key"`
	Steps      int            `json:"steps"`
	SimSeconds float64        `json:"sim_seconds"`
	Faults     map[string]int `json:"faults,omitempty"`
	Probes     map[string]int `json:"probes,omitempty"`
	Classes    map[string]int `json:"classes,omitempty"`
	TapeUsed   int            `json:"tape_used"`
	TraceHash  string         `json:"trace_hash"`
	Leaked     []string       `json:"leaked,omitempty"`
	BubbleLeak bool           `json:"bubble_leak,omitempty"`
	Sample     any            `json:"sample,omitempty"`
	Trace      []string       `json:"trace,omitempty"`
	Checks     int            `json:"checks"` // number of oracle comparisons performed
	Cover      []string       `json:"cover,omitempty"`
	SigSuffix  string         `json:"-"`
}

func (r *Result) Violate(sig, format string, args ...any) {
	r.Verdict = "violation"
	d := fmt.Sprintf(format, args...)
	if r.SigSuffix != "" {
		sig += ":" + r.SigSuffix
	}
	if len(d) > 1500 {
		d = d[:1500] + "..."
	}
	for _, v := range r.Violations {
		if v.Signature == sig {
			return
		}
	}
	r.Violations = append(r.Violations, Violation{Signature: sig, Detail: d})
}

func (r *Result) Probe(name string) {
	if r.Probes == nil {
		r.Probes = map[string]int{}
	}
	r.Probes[name]++
}

func (r *Result) ProbeN(name string, n int) {
	if n == 0 {
		return
	}
	if r.Probes == nil {
		r.Probes = map[string]int{}
	}
	r.Probes[name] += n
}

func (r *Result) Fault(name string) {
	if r.Faults == nil {
		r.Faults = map[string]int{}
	}
	r.Faults[name]++
}

type Scenario func(s *sched.Sim, cfg Config, res *Result)

var Registry = map[string]Scenario{}

func HashKey(parts ...string) string {
	h := sha256.Sum256([]byte(strings.Join(parts, "\x00")))
	return hex.EncodeToString(h[:8])
}

func sortedKeys[V any](m map[string]V) []string {
	ks := make([]string, 0, len(m))
	for k := range m {
		ks = append(ks, k)
	}
	sort.Strings(ks)
	return ks
}

// Finish copies scheduler statistics into the result.
func Finish(s *sched.Sim, res *Result) {
	res.Steps = s.Steps
	res.TapeUsed = s.T.Pos()
	res.TraceHash = fmt.Sprintf("%016x", s.TraceHash())
	res.Classes = map[string]int{}
	for k, v := range s.ClassFire {
		res.Classes[k] = v
	}
	if s.AutoDensity > 0 {
		// instrumented build: live points passed, preemptions taken, lock waits parked in the simulator;
		// the points at which a goroutine was actually preempted count as coverage points
		res.Classes["auto.live-points-passed"] = s.AutoVisits
		res.Classes["auto.mutex-waits-parked"] = s.MutexWaits
		res.Classes["auto.map-loops-ordered-by-the-simulator"] = s.MapLoops
		for site := range s.AutoSites {
			res.Cover = append(res.Cover, "preempted-at:"+site)
		}
		sort.Strings(res.Cover)
	}
	if len(s.Anomalies) > 0 && res.Anomaly == "" {
		res.Anomaly = strings.Join(s.Anomalies, "; ")
		res.Verdict = "anomaly"
	}
	if res.Verdict == "" {
		res.Verdict = "ok"
	}
}

// HarnessPanic is raised by harness code on its own inconsistencies (exit 2, never a violation).
type HarnessPanic string
