package scen

import (
	"fmt"
	"sort"
	"strings"
	"sync/atomic"
	"time"

	"github.com/buildbuildio/pebbles/planner"
	"github.com/vektah/gqlparser/v2/ast"

	"verif/sim/gql"
	"verif/sim/sched"
)

func init() {
	Registry["C01"] = scenFED
	Registry["C02"] = scenFED
	Registry["C12"] = scenFED
}

type featSet map[string]bool

func parseFeat(s string) (on featSet, off featSet) {
	on, off = featSet{}, featSet{}
	for _, f := range strings.Split(s, ",") {
		f = strings.TrimSpace(f)
		if f == "" {
			continue
		}
		if strings.HasPrefix(f, "-") {
			off[f[1:]] = true
		} else {
			on[f] = true
		}
	}
	return
}

// drawPolicy: swarm over scheduling policies.
// drawPolicyOn is drawPolicy for harness goroutines other than the driver (draws under the
// simulator's lock).
func drawPolicyOn(s *sched.Sim) sched.Policy {
	pol := sched.Policy{Deviation: []int{16, 16, 6, 2}[s.Draw(4)]}
	switch s.Draw(4) {
	case 0:
		pol.NoSearch = map[string]bool{"start": true, "amr.send.res": true, "amr.send.err": true, "amr.done": true}
	case 1:
		pol.NoSearch = map[string]bool{"start": true}
	case 2:
		pol.Hold = map[string]bool{"net.reply": true}
		pol.HoldNum = 12
	}
	return pol
}

func drawPolicy(s *sched.Sim) sched.Policy {
	pol := sched.Policy{Deviation: []int{16, 16, 6, 2}[s.T.Choose(4)]}
	switch s.T.Choose(4) {
	case 0:
		pol.NoSearch = map[string]bool{"start": true, "amr.send.res": true, "amr.send.err": true, "amr.done": true}
	case 1:
		pol.NoSearch = map[string]bool{"start": true}
	case 2:
		pol.Hold = map[string]bool{"net.reply": true}
		pol.HoldNum = 12
	}
	return pol
}

type fedOp struct {
	op     *gql.Op
	client string
	resp   *clientResp
	want   map[string]interface{}
}

func worldFeatures(s *sched.Sim, cfg Config) gql.Features {
	wf := gql.DefaultFeatures(s.T)
	on, off := parseFeat(cfg.Features)
	applyWorldOverrides(&wf, on, off)
	return wf
}

func applyWorldOverrides(wf *gql.Features, on, off featSet) {
	set := func(name string, p *bool) {
		if on[name] {
			*p = true
		}
		if off[name] {
			*p = false
		}
	}
	set("interfaces", &wf.Interfaces)
	set("unions", &wf.Unions)
	set("value-types", &wf.ValueTypes)
	set("inputs", &wf.Inputs)
	set("enums", &wf.Enums)
	set("custom-scalar", &wf.CustomScalar)
	set("args", &wf.Args)
	set("arg-defaults", &wf.ArgDefaults)
	set("mutations", &wf.Mutations)
	set("subscriptions", &wf.Subscriptions)
	set("value-union", &wf.ValueUnion)
	set("weird-ids", &wf.WeirdIDs)
	set("id-only-entity", &wf.IDOnlyEntity)
	set("shared-root-name", &wf.SharedRootName)
	set("empty-abstract", &wf.EmptyAbstract)
}

func applyOpOverrides(of *gql.OpFeatures, on, off featSet) {
	set := func(name string, p *bool) {
		if on[name] {
			*p = true
		}
		if off[name] {
			*p = false
		}
	}
	set("aliases", &of.Aliases)
	set("alias-collide", &of.AliasCollide)
	set("variables", &of.Variables)
	set("var-defaults", &of.VarDefaults)
	set("var-omitted", &of.VarOmitted)
	set("var-in-input", &of.VarInInput)
	set("var-named-id", &of.VarNamedID)
	set("var-named-id-root", &of.VarNamedIDRoot)
	set("var-stricter", &of.VarStricter)
	set("directives", &of.Directives)
	set("directive-vars", &of.DirectiveVars)
	set("named-fragments", &of.NamedFragments)
	set("inline-fragments", &of.InlineFragments)
	set("typename", &of.Typename)
	set("root-typename", &of.RootTypename)
	set("root-introspection", &of.RootIntrospect)
	set("node-root", &of.NodeRoot)
	set("multi-op", &of.MultiOp)
	set("dup-fields", &of.DupFields)
	set("null-literals", &of.NullLiterals)
	set("abstract-frags", &of.AbstractFrags)
	set("explicit-id", &of.ExplicitID)
	set("id-alias", &of.IDAlias)
	set("id-directive", &of.IDDirective)
	set("id-with-fragments", &of.IDWithFragments)
	set("abstract-nested", &of.AbstractNested)
	set("abstract-cond-frag", &of.AbstractCondFrag)
	set("abstract-frag-meta", &of.AbstractFragMeta)
	set("frag-twice", &of.FragTwice)
	set("frag-directives", &of.FragDirectives)
	set("frag-reuse", &of.FragReuse)
}

func opFeatures(s *sched.Sim, cfg Config) gql.OpFeatures {
	of := gql.DefaultOpFeatures(s.T)
	on, off := parseFeat(cfg.Features)
	applyOpOverrides(&of, on, off)
	return of
}

func scenFED(s *sched.Sim, cfg Config, res *Result) {
	prop := cfg.Prop
	s.Policy = drawPolicy(s)
	wf := worldFeatures(s, cfg)
	of := opFeatures(s, cfg)
	maxSvc := 3
	maxDepth := 6
	if cfg.Thorough {
		maxSvc, maxDepth = 4, 8
	}
	w := gql.Generate(s.T, wf, maxSvc)
	if prop == "C12" {
		// long lists: keep the selections shallower so that answers stay small
		maxDepth = 4
		w.LenProf = [][]int{{0, 1, 5, 6}, {2, 3, 6, 6}, {1, 4, 4, 5}}[s.T.Choose(3)]
		w.NEntities = 2
	}
	gc := drawGwConfig(s)
	if gc.Sanitize {
		of.NodeRoot = false
	}
	if prop == "C01" && s.T.Bool(1, 4) {
		// (C02 and C12 look at what the harness queryers record)
		gc.DefaultFactory = true
		res.Probe("fed.gateway-default-queryer-factory")
	}
	env, err := newFedEnv(s, res, w, gc, prop)
	if err != nil {
		// the merger rejected a set of schemas that follows the federation contract: nothing to
		// execute. Reported as harness anomaly so that it is looked at, never as a violation.
		res.Verdict = "anomaly"
		res.Anomaly = "gateway start-up failed on a generated world: " + err.Error() + "\n" + w.Describe()
		return
	}
	sizeCap := 3000
	if cfg.Thorough {
		sizeCap = 4000
	}
	nOps := 1 + s.T.Choose(3)
	overlap := s.T.Bool(1, 2)
	var ops []*fedOp
	for i := 0; i < nOps; i++ {
		kind := ast.Query
		if w.Union.Mutation != nil && s.T.Bool(1, 4) {
			kind = ast.Mutation
		}
		op := gql.GenOp(s.T, w, w.Union, kind, of, maxDepth, 24)
		fo := &fedOp{op: op, client: fmt.Sprintf("c%d", i)}
		fo.want = env.reference(op)
		// nested lists multiply: an answer with tens of thousands of values means thousands of
		// goroutines per level and costs minutes of scheduling without reaching anything new
		for d := maxDepth - 2; d >= 2 && jsonSize(gql.ToJSONValue(fo.want)) > sizeCap; d -= 2 {
			res.Probe("fed.answer-too-large-redrawn")
			fo.op = gql.GenOp(s.T, w, w.Union, kind, of, d, 24)
			fo.want = env.reference(fo.op)
		}
		ops = append(ops, fo)
	}
	{
		var d []string
		for _, fo := range ops {
			d = append(d, fmt.Sprintf("%s vars=%v", fo.op.Text, fo.op.Vars))
		}
		s.Describe(map[string]any{"services": w.ServiceSDL, "gateway": gc.String(), "operations": d, "overlapping_clients": overlap})
	}
	var doneCount atomic.Int32
	run := func(fo *fedOp) {
		fo.resp = env.post(fo.client, []clientReq{{Query: fo.op.Text, Variables: fo.op.Vars, OperationName: fo.op.OpName}}, false)
		doneCount.Add(1)
	}
	if overlap && gc.CacheTTL != "" && gc.CacheTTL != "1h" && s.T.Bool(1, 2) {
		// time may pass while the clients' requests overlap: a cached plan can expire, and be evicted
		// by another request, between being fetched and being executed
		ttl, _ := time.ParseDuration(gc.CacheTTL)
		addTick(s, 1+s.T.Choose(2), ttl+time.Nanosecond, nil)
		res.Probe("fed.clock-advances-while-requests-overlap")
	}
	if overlap {
		for _, fo := range ops {
			fo := fo
			s.Go(fo.client, func() { run(fo) })
		}
	} else {
		s.Go("c", func() {
			for _, fo := range ops {
				run(fo)
			}
		})
	}
	stepBudget := 150000
	if cfg.Thorough {
		stepBudget = 1500000
	}
	end := s.Run(func() bool { return int(doneCount.Load()) == len(ops) && len(s.Alive()) == 0 }, stepBudget, 10*time.Second)
	if end == sched.Hang {
		res.Violate(prop+"/hang", "client requests did not finish: done=%d/%d parked=%v alive=%v", doneCount.Load(), len(ops), s.ParkedLabels(), s.Alive())
	} else if end == sched.StepBudget {
		res.Verdict, res.Anomaly = "anomaly", "step budget exhausted in FED"
		return
	}
	if prop == "C12" && end == sched.Done {
		// the same operations on the same world with every list 2x longer: the bound must not move
		w.Mult = 2
		var again []*fedOp
		for i, fo := range ops {
			again = append(again, &fedOp{op: fo.op, client: fmt.Sprintf("x%d", i), want: env.reference(fo.op)})
		}
		var done2 atomic.Bool
		s.Go("cx", func() {
			for _, fo := range again {
				fo.resp = env.post(fo.client, []clientReq{{Query: fo.op.Text, Variables: fo.op.Vars, OperationName: fo.op.OpName}}, false)
			}
			done2.Store(true)
		})
		if s.Run(func() bool { return done2.Load() && len(s.Alive()) == 0 }, 200000, 10*time.Second) == sched.Hang {
			res.Violate(prop+"/hang", "requests on the 2x world did not finish: parked=%v", s.ParkedLabels())
		}
		ops = append(ops, again...)
		res.Probe("c12.replayed-on-2x-longer-lists")
	}
	// multi-level & stitching probes
	stitched := false
	var descr []string
	for _, fo := range ops {
		tag := fo.client + "#0"
		plans := env.plans[tag]
		var shape string
		depth := 0
		if len(plans) > 0 && plans[0] != nil {
			shape = planShape(plans[0])
			for _, st := range planSteps(plans[0]) {
				if len(st.InsertionPoint) > 0 {
					stitched = true
					res.Probe("fed.cross-service-stitch")
				}
			}
			depth = maxPlanDepth(plans[0])
			if depth >= 3 {
				res.Probe("fed.stitch-depth>=3")
			}
		}
		descr = append(descr, fmt.Sprintf("%s %s vars=%v opName=%v plan=[%s]", fo.client, fo.op.Text, fo.op.Vars, deref(fo.op.OpName), shape))
		if fo.resp == nil || !fo.resp.Done {
			continue
		}
		switch prop {
		case "C01":
			checkC01(res, fo)
		}
	}
	switch prop {
	case "C02":
		checkC02(env, res, ops)
	case "C12":
		checkC12(env, res, ops)
	}
	for _, wr := range env.wire {
		if strings.Contains(wr.Text, "node(id: $id)") {
			res.Probe("fed.node-lookup")
		}
	}
	res.ProbeN("fed.answers-overtook", env.net.Overtakes)
	res.ProbeN("fed.plan-order-draws", s.OrderDraws)
	for _, c := range env.calls {
		if c.N > gc.MaxBatch {
			res.Probe("fed.chunked-downstream-call")
		}
	}
	for k, v := range mergeUsed(ops) {
		res.ProbeN("op."+k, v)
	}
	res.Nontrivial = stitched && res.Checks > 0
	res.Key = HashKey(w.UnionSDL, fmt.Sprint(w.Salt), strings.Join(descr, "|"), gc.String(), fmt.Sprintf("%x", s.TraceHash()))
	res.SchedKey = fmt.Sprintf("%x", s.TraceHash())
	res.Sample = map[string]any{"services": w.ServiceSDL, "gateway": gc.String(), "operations": descr, "overlapping_clients": overlap,
		"downstream_requests": len(env.wire), "policy": fmt.Sprintf("%+v", s.Policy)}
}

func mergeUsed(ops []*fedOp) map[string]int {
	out := map[string]int{}
	for _, fo := range ops {
		for k, v := range fo.op.UsedFeat {
			out[k] += v
		}
	}
	return out
}

func deref(s *string) string {
	if s == nil {
		return "<nil>"
	}
	return *s
}

func maxPlanDepth(p *planner.QueryPlan) int {
	d := 0
	var walk func(ss []*planner.QueryPlanStep, k int)
	walk = func(ss []*planner.QueryPlanStep, k int) {
		for _, st := range ss {
			if k > d {
				d = k
			}
			walk(st.Then, k+1)
		}
	}
	walk(p.RootSteps, 1)
	return d
}

func checkC01(res *Result, fo *fedOp) {
	cr := fo.resp
	res.Checks++
	if cr.Panic != "" {
		res.Violate("C01/handler-panic", "handler panicked: %s\nop: %s", cr.Panic, fo.op.Text)
		return
	}
	if cr.Status != 200 {
		res.Violate("C01/status", "status %d for a valid operation: %s\n%s", cr.Status, fo.op.Text, clipStr(string(cr.Raw), 300))
		return
	}
	if cr.BadJSON != "" || cr.Single == nil {
		res.Violate("C01/bad-response", "response is not a single JSON result (%s): %s", cr.BadJSON, clipStr(string(cr.Raw), 300))
		return
	}
	if len(cr.Single.Errors) > 0 {
		res.Violate("C01/errors-nonempty", "valid operation answered with errors %v\nop: %s\nvars: %v", clipStr(fmt.Sprint(cr.Single.Errors), 400), fo.op.Text, fo.op.Vars)
		return
	}
	if d := compareData(fo.want, cr.Single); d != "" {
		res.Violate("C01/data-"+diffKind(d), "%s\nop: %s\nvars: %v\ngateway: %s", d, fo.op.Text, fo.op.Vars, clipStr(string(cr.Raw), 500))
	}
}

var _ = sort.Strings
