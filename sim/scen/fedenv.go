package scen

import (
	"bytes"
	"context"
	"encoding/json"
	"fmt"
	"net/http"
	"net/http/httptest"
	"sort"
	"strings"
	"sync"
	"time"

	"github.com/buildbuildio/pebbles"
	"github.com/buildbuildio/pebbles/merger"
	"github.com/buildbuildio/pebbles/planner"
	"github.com/buildbuildio/pebbles/queryer"
	"github.com/buildbuildio/pebbles/requests"
	"github.com/vektah/gqlparser/v2/ast"

	"verif/sim/gql"
	"verif/sim/sched"
	"verif/sim/simnet"
)

// gateway configuration drawn per run (public options only)
type gwConfig struct {
	Sanitize   bool   // SanitizeNodeMergerFunc instead of ExtendMergerFunc
	ParentFn   int    // 0 none, 1 prefix parser, 2 parser that sometimes declines
	CacheTTL   string // "" = plain planner, else duration string
	MaxBatch   int
	OrderSeach bool
	// DefaultFactory: the gateway builds its queryers itself (no WithQueryerFactory): its own
	// factory code runs, sub-requests go through http.DefaultClient
	DefaultFactory bool
}

func (c gwConfig) String() string {
	return fmt.Sprintf("merger=%s parentTypeFn=%d planner=%s maxBatchSize=%d planStepOrderSearch=%v queryerFactory=%s", map[bool]string{false: "Extend", true: "SanitizeNode"}[c.Sanitize], c.ParentFn, map[bool]string{true: "plain", false: "cached(" + c.CacheTTL + ")"}[c.CacheTTL == ""], c.MaxBatch, c.OrderSeach, map[bool]string{false: "harness (per operation)", true: "the gateway's default"}[c.DefaultFactory])
}

type wireRec struct {
	Tag     string
	Svc     int
	Seq     int
	Text    string
	Vars    map[string]interface{}
	OpName  *string
	Kind    string // query mutation subscription ("" if unparseable)
	Valid   bool
	Problem string
	Resp    *gql.Response
	Multi   bool
	// multipart only
	Files     map[string][]byte
	FileNames map[string]string
	FMap      map[string][]string
	RawVars   map[string]interface{} // variables as they arrived (before file markers were set)
}

type callRec struct {
	Tag  string
	URL  string
	N    int
	Reqs []*requests.Request
}

type stubIntrospector struct{ w *gql.World }

func (si stubIntrospector) IntrospectRemoteSchemas(urls ...string) ([]*ast.Schema, error) {
	out := make([]*ast.Schema, len(urls))
	for i, u := range urls {
		found := false
		for j, wu := range si.w.URLs {
			if wu == u {
				// a fresh copy per gateway: the merger mutates its inputs
				s, err := loadSDL(si.w.ServiceSDL[j])
				if err != nil {
					return nil, err
				}
				out[i] = s
				found = true
			}
		}
		if !found {
			return nil, fmt.Errorf("unknown service %s", u)
		}
	}
	return out, nil
}

type recPlanner struct {
	inner planner.Planner
	env   *fedEnv
}

func (rp recPlanner) Plan(ctx *planner.PlanningContext) (*planner.QueryPlan, error) {
	p, err := rp.inner.Plan(ctx)
	tag := rp.env.tagOf(ctx)
	rp.env.mu.Lock()
	rp.env.plans[tag] = append(rp.env.plans[tag], p)
	if err != nil {
		rp.env.planErrs[tag] = err.Error()
	}
	rp.env.mu.Unlock()
	return p, err
}

type countingQueryer struct {
	inner *queryer.MultiOpQueryer
	env   *fedEnv
	tag   string
}

func (cq *countingQueryer) Query(rs []*requests.Request) ([]map[string]interface{}, error) {
	// (no call into the gateway's code while holding a harness lock: in the instrumented build it
	// may stop at an interleaving point, and a goroutine blocked on a real mutex stalls the bubble)
	url := cq.inner.URL()
	cq.env.mu.Lock()
	cq.env.calls = append(cq.env.calls, callRec{Tag: cq.tag, URL: url, N: len(rs), Reqs: rs})
	cq.env.mu.Unlock()
	return cq.inner.Query(rs)
}
func (cq *countingQueryer) Subscribe(r *requests.Request, c <-chan struct{}, ch chan *requests.Response) error {
	return cq.inner.Subscribe(r, c, ch)
}
func (cq *countingQueryer) URL() string { return cq.inner.URL() }

type fedEnv struct {
	// mu guards what planner / queryer wrappers touch from gateway goroutines
	mu      sync.Mutex
	cancels map[string]context.CancelFunc
	s       *sched.Sim
	res     *Result
	w       *gql.World
	net     *simnet.Net
	cfg     gwConfig
	gw      *pebbles.Gateway
	execs   []*gql.Exec
	ref     *gql.Exec

	effects  []gql.Effect
	plans    map[string][]*planner.QueryPlan
	planErrs map[string]string
	wire     []*wireRec
	calls    []callRec
	// tag assignment: *requests.Request pointer -> tag
	reqTags map[*requests.Request]string
	// clients register the elements of their batch so that tags name the element index
	pending map[string][]pendingEl
	prop    string
	// answerFilter lets fault scenarios rewrite a single element answer before it is encoded
	checkWire bool
}

type pendingEl struct {
	key     string
	short   string
	claimed bool
}

func drawGwConfig(s *sched.Sim) gwConfig {
	c := gwConfig{}
	c.Sanitize = s.T.Bool(1, 3)
	c.ParentFn = s.T.Choose(3)
	if s.T.Bool(1, 3) {
		c.CacheTTL = []string{"0s", "1ns", "1s", "1h"}[s.T.Choose(4)]
	}
	c.MaxBatch = []int{3000, 3000, 1, 2, 3, 7}[s.T.Choose(6)]
	c.OrderSeach = s.T.Bool(1, 2)
	return c
}

func newFedEnv(s *sched.Sim, res *Result, w *gql.World, cfg gwConfig, prop string) (*fedEnv, error) {
	e := &fedEnv{s: s, res: res, w: w, cfg: cfg, prop: prop, plans: map[string][]*planner.QueryPlan{}, planErrs: map[string]string{},
		reqTags: map[*requests.Request]string{}, pending: map[string][]pendingEl{}, checkWire: true}
	e.net = simnet.NewNet(s)
	s.OrderSearch = cfg.OrderSeach
	for i := range w.URLs {
		i := i
		ex := &gql.Exec{W: w, Schema: w.Services[i], Service: i, Effects: &e.effects, Resolved: map[string]int{}}
		e.execs = append(e.execs, ex)
		e.net.Handlers[w.URLs[i]] = func(m *simnet.Message) (int, []byte) { return e.serve(i, m) }
	}
	e.ref = &gql.Exec{W: w, Schema: w.Union, Service: -1}
	gw, err := e.boot()
	if err != nil {
		return nil, err
	}
	e.gw = gw
	return e, nil
}

func (e *fedEnv) boot() (*pebbles.Gateway, error) {
	cfg := e.cfg
	opts := []pebbles.GatewayOption{
		pebbles.WithRemoteSchemaIntrospector(stubIntrospector{e.w}),
	}
	if cfg.DefaultFactory {
		// the gateway's own factory: queryers over http.DefaultClient, whose transport finds the
		// simulated network and the tag in the context the sub-requests inherit from the client request
		http.DefaultClient.Transport = simnet.CtxTransport{}
	} else {
		opts = append(opts, pebbles.WithQueryerFactory(func(ctx *planner.PlanningContext, url string) queryer.Queryer {
			// a queryer factory is user code and may take its time (look a service up, open a pool)
			e.s.Park("queryer.factory")
			tag := e.tagOf(ctx)
			q := queryer.NewMultiOpQueryer(url, cfg.MaxBatch).WithHTTPClient(&http.Client{Transport: &simnet.Transport{Net: e.net, Tag: tag}})
			if ctx.Request != nil && ctx.Request.Original != nil {
				q = q.WithContext(ctx.Request.Original.Context())
			}
			return &countingQueryer{inner: q, env: e, tag: tag}
		}))
	}
	if cfg.Sanitize {
		var m merger.SanitizeNodeMergerFunc
		opts = append(opts, pebbles.WithMerger(m))
	}
	var inner planner.Planner
	if cfg.CacheTTL != "" {
		d, _ := time.ParseDuration(cfg.CacheTTL)
		inner = planner.NewCachedPlanner(d)
	} else {
		var sp planner.SequentialPlanner
		inner = sp
	}
	opts = append(opts, pebbles.WithPlanner(recPlanner{inner: inner, env: e}))
	switch cfg.ParentFn {
	case 1:
		opts = append(opts, pebbles.WithGetParentTypeFromIDFunc(func(id interface{}) (string, bool) {
			s, ok := id.(string)
			if !ok {
				return "", false
			}
			t := e.w.TypeOfID(s)
			return t, t != ""
		}))
	case 2:
		opts = append(opts, pebbles.WithGetParentTypeFromIDFunc(func(id interface{}) (string, bool) {
			s, ok := id.(string)
			if !ok || len(s)%2 == 0 {
				return "", false
			}
			t := e.w.TypeOfID(s)
			return t, t != ""
		}))
	}
	return pebbles.NewGateway(e.w.URLs, opts...)
}

func elKey(query string, opName *string, vars map[string]interface{}) string {
	b, _ := json.Marshal(vars)
	on := ""
	if opName != nil {
		on = *opName
	}
	return query + "\x00" + on + "\x00" + string(b)
}

// tagOf attributes a planning context to "<client>#<batch element>".
func (e *fedEnv) tagOf(ctx *planner.PlanningContext) string {
	if ctx == nil || ctx.Request == nil {
		return "?"
	}
	e.mu.Lock()
	defer e.mu.Unlock()
	if t, ok := e.reqTags[ctx.Request]; ok {
		return t
	}
	client := "?"
	if ctx.Request.Original != nil {
		client = ctx.Request.Original.Header.Get("X-Sim-Client")
	}
	varsNoFiles := map[string]interface{}{}
	for k, v := range ctx.Request.Variables {
		varsNoFiles[k] = v
	}
	key := elKey(ctx.Request.Query, ctx.Request.OperationName, stripUploads(varsNoFiles).(map[string]interface{}))
	idx := -1
	els := e.pending[client]
	for i := range els {
		if !els[i].claimed && els[i].key == key {
			els[i].claimed = true
			idx = i
			break
		}
	}
	if idx < 0 {
		// the gateway may have completed the variables (defaults): match on text and name only
		short := elKey(ctx.Request.Query, ctx.Request.OperationName, nil)
		for i := range els {
			if !els[i].claimed && els[i].short == short {
				els[i].claimed = true
				idx = i
				break
			}
		}
	}
	tag := fmt.Sprintf("%s#%d", client, idx)
	if idx < 0 {
		tag = fmt.Sprintf("%s#?%d", client, len(e.reqTags))
	}
	e.reqTags[ctx.Request] = tag
	return tag
}

func stripUploads(v interface{}) interface{} {
	switch vv := v.(type) {
	case map[string]interface{}:
		out := map[string]interface{}{}
		for k, c := range vv {
			out[k] = stripUploads(c)
		}
		return out
	case []interface{}:
		out := make([]interface{}, len(vv))
		for i, c := range vv {
			out[i] = stripUploads(c)
		}
		return out
	case *requests.Upload, requests.Upload:
		return nil
	}
	return v
}

// serve is the simulated service node (runs on the driver goroutine).
func (e *fedEnv) serve(svc int, m *simnet.Message) (int, []byte) {
	reqs, mp, files, fileNames, fmap, err := parseWire(m)
	if err != nil {
		e.wire = append(e.wire, &wireRec{Tag: m.Tag, Svc: svc, Seq: m.Seq, Problem: "undecodable request: " + err.Error()})
		return 400, []byte(`{"errors":[{"message":"bad request"}]}`)
	}
	var rawVars map[string]interface{}
	if mp {
		// keep the variables as received, then put a marker naming the file at every mapped path
		rb, _ := json.Marshal(reqs[0].Variables)
		json.Unmarshal(rb, &rawVars)
		for _, k := range sortedKeys(fmap) {
			for _, path := range fmap[k] {
				setAtPath(reqs[0].Variables, path, FileMarker(fileNames[k], files[k]))
			}
		}
	}
	out := make([]*gql.Response, len(reqs))
	for i, r := range reqs {
		wr := &wireRec{Tag: m.Tag, Svc: svc, Seq: m.Seq, Text: r.Query, Vars: r.Variables, OpName: r.OperationName, Multi: mp, Files: files, FileNames: fileNames, FMap: fmap, RawVars: rawVars}
		resp, op, errs := e.execs[svc].Run(r.Query, r.OperationName, r.Variables)
		if op != nil {
			wr.Kind = string(op.Operation)
		}
		if errs != nil {
			wr.Problem = errs.Error()
			if len(errs) > 0 && errs[0].Rule != "" {
				wr.Problem = errs[0].Rule + ": " + errs[0].Message
			}
		} else {
			wr.Valid = true
		}
		wr.Resp = resp
		out[i] = resp
		e.wire = append(e.wire, wr)
	}
	var b []byte
	if mp {
		b, _ = json.Marshal(out[0])
	} else {
		b, _ = json.Marshal(out)
	}
	return 200, b
}

type clientReq struct {
	Query         string                 `json:"query"`
	Variables     map[string]interface{} `json:"variables,omitempty"`
	OperationName *string                `json:"operationName,omitempty"`
}

type clientResp struct {
	Status int
	Raw    []byte
	Panic  string
	Done   bool
	// decoded
	Single  *gwResult
	Batch   []*gwResult
	BadJSON string
}

type gwResult struct {
	Data    interface{}              `json:"data"`
	Errors  []map[string]interface{} `json:"errors"`
	hasData bool
}

// post sends one HTTP POST to the gateway from the calling (registered) goroutine.
func (e *fedEnv) post(client string, els []clientReq, batch bool) *clientResp {
	var body []byte
	if batch {
		body, _ = json.Marshal(els)
	} else {
		body, _ = json.Marshal(els[0])
	}
	pe := make([]pendingEl, len(els))
	for i, el := range els {
		var vars map[string]interface{}
		if el.Variables != nil {
			// as the gateway will see them after JSON decoding
			vb, _ := json.Marshal(el.Variables)
			json.Unmarshal(vb, &vars)
		}
		pe[i] = pendingEl{key: elKey(el.Query, el.OperationName, stripUploads(vars).(map[string]interface{}))}
		if vars == nil {
			pe[i].key = elKey(el.Query, el.OperationName, map[string]interface{}{})
		}
		pe[i].short = elKey(el.Query, el.OperationName, nil)
	}
	e.mu.Lock()
	e.pending[client] = pe
	e.mu.Unlock()
	return e.postRaw(client, body, "application/json")
}

func (e *fedEnv) postRaw(client string, body []byte, contentType string) *clientResp {
	r := httptest.NewRequest(http.MethodPost, "/graphql", bytes.NewReader(body))
	if contentType != "" {
		r.Header.Set("Content-Type", contentType)
	}
	r.Header.Set("X-Sim-Client", client)
	// what net/http does: the request context ends when the client goes away
	ctx, cancel := context.WithCancel(r.Context())
	defer cancel()
	if e.cfg.DefaultFactory {
		ctx = simnet.WithRoute(ctx, &simnet.Route{Net: e.net, Tag: client + "#0"})
	}
	e.mu.Lock()
	if e.cancels == nil {
		e.cancels = map[string]context.CancelFunc{}
	}
	e.cancels[client] = cancel
	e.mu.Unlock()
	return e.do(r.WithContext(ctx))
}

// clientGivesUp ends the context of the client's request in flight (the client disconnected).
func (e *fedEnv) clientGivesUp(client string) {
	e.mu.Lock()
	c := e.cancels[client]
	e.mu.Unlock()
	if c != nil {
		c()
	}
}

func (e *fedEnv) do(r *http.Request) *clientResp {
	w := httptest.NewRecorder()
	cr := &clientResp{}
	func() {
		defer func() {
			if p := recover(); p != nil {
				// net/http would log this and abort the connection
				cr.Panic = fmt.Sprint(p)
			}
		}()
		e.gw.Handler(w, r)
	}()
	cr.Status = w.Code
	cr.Raw = w.Body.Bytes()
	cr.Done = true
	cr.decode()
	return cr
}

func (cr *clientResp) decode() {
	raw := bytes.TrimSpace(cr.Raw)
	if len(raw) == 0 {
		cr.BadJSON = "empty body"
		return
	}
	dec := func(b []byte) (*gwResult, error) {
		var m map[string]json.RawMessage
		if err := json.Unmarshal(b, &m); err != nil {
			return nil, err
		}
		g := &gwResult{}
		if d, ok := m["data"]; ok {
			g.hasData = true
			if err := json.Unmarshal(d, &g.Data); err != nil {
				return nil, err
			}
		}
		if er, ok := m["errors"]; ok {
			if err := json.Unmarshal(er, &g.Errors); err != nil {
				return nil, fmt.Errorf("errors member: %v", err)
			}
		}
		for k := range m {
			if k != "data" && k != "errors" && k != "extensions" {
				return nil, fmt.Errorf("unexpected member %q", k)
			}
		}
		return g, nil
	}
	if raw[0] == '[' {
		var arr []json.RawMessage
		if err := json.Unmarshal(raw, &arr); err != nil {
			cr.BadJSON = err.Error()
			return
		}
		cr.Batch = []*gwResult{}
		for _, a := range arr {
			g, err := dec(a)
			if err != nil {
				cr.BadJSON = err.Error()
				return
			}
			cr.Batch = append(cr.Batch, g)
		}
		return
	}
	g, err := dec(raw)
	if err != nil {
		cr.BadJSON = err.Error()
		return
	}
	cr.Single = g
}

// reference answers the operation on the union schema ("a single server over the same data").
func (e *fedEnv) reference(op *gql.Op) map[string]interface{} {
	resp, _, errs := e.ref.Run(op.Text, op.OpName, op.Vars)
	if errs != nil {
		panic(HarnessPanic("reference rejects generated operation: " + errs.Error()))
	}
	return resp.Data
}

// compareData checks a gateway element answer against the reference (C01 oracle).
func compareData(want map[string]interface{}, got *gwResult) string {
	if got == nil {
		return "no result"
	}
	w := gql.Normalize(gql.ToJSONValue(want))
	g := gql.Normalize(got.Data)
	if got.Data == nil {
		return "data is null, want " + clipStr(fmt.Sprint(w), 200)
	}
	return gql.Diff("data", w, g)
}

func clipStr(s string, n int) string {
	if len(s) > n {
		return s[:n] + "..."
	}
	return s
}

func diffKind(d string) string {
	switch {
	case d == "":
		return ""
	case strings.Contains(d, "missing in gateway answer"):
		return "missing-key"
	case strings.Contains(d, "unexpected key"):
		return "unexpected-key"
	case strings.Contains(d, "list length"):
		return "list-length"
	case strings.Contains(d, "data is null"):
		return "data-null"
	case strings.Contains(d, "want object") || strings.Contains(d, "want list"):
		return "shape"
	default:
		return "value"
	}
}

// planSteps flattens a plan.
func planSteps(p *planner.QueryPlan) []*planner.QueryPlanStep {
	var out []*planner.QueryPlanStep
	var walk func(ss []*planner.QueryPlanStep)
	walk = func(ss []*planner.QueryPlanStep) {
		for _, s := range ss {
			out = append(out, s)
			walk(s.Then)
		}
	}
	if p != nil {
		walk(p.RootSteps)
	}
	return out
}

func planShape(p *planner.QueryPlan) string {
	var parts []string
	var walk func(ss []*planner.QueryPlanStep, d int)
	walk = func(ss []*planner.QueryPlanStep, d int) {
		for _, s := range ss {
			parts = append(parts, fmt.Sprintf("%d:%s:%s:%d", d, s.URL, s.ParentType, len(s.InsertionPoint)))
			walk(s.Then, d+1)
		}
	}
	if p != nil {
		walk(p.RootSteps, 0)
	}
	sort.Strings(parts)
	return strings.Join(parts, ",")
}

// levelsPerURL: number of plan levels (depths) at which each service appears.
func levelsPerURL(p *planner.QueryPlan) map[string]int {
	seen := map[string]map[int]bool{}
	var walk func(ss []*planner.QueryPlanStep, d int)
	walk = func(ss []*planner.QueryPlanStep, d int) {
		for _, s := range ss {
			if seen[s.URL] == nil {
				seen[s.URL] = map[int]bool{}
			}
			seen[s.URL][d] = true
			walk(s.Then, d+1)
		}
	}
	if p != nil {
		walk(p.RootSteps, 0)
	}
	out := map[string]int{}
	for u, m := range seen {
		out[u] = len(m)
	}
	return out
}

// FileMarker is the value a simulated service (and the reference) sees in place of an uploaded file.
func FileMarker(name string, content []byte) string {
	return fmt.Sprintf("upload:%s:%s:%d", name, HashKey(string(content)), len(content))
}

// setAtPath sets v at a "variables.a.b.0" path (ignores paths that do not resolve).
func setAtPath(vars map[string]interface{}, path string, v interface{}) bool {
	parts := strings.Split(path, ".")
	if len(parts) < 2 || parts[0] != "variables" {
		return false
	}
	var cur interface{} = vars
	for i := 1; i < len(parts); i++ {
		last := i == len(parts)-1
		switch c := cur.(type) {
		case map[string]interface{}:
			if last {
				c[parts[i]] = v
				return true
			}
			cur = c[parts[i]]
		case []interface{}:
			n := -1
			fmt.Sscanf(parts[i], "%d", &n)
			if n < 0 || n >= len(c) {
				return false
			}
			if last {
				c[n] = v
				return true
			}
			cur = c[n]
		default:
			return false
		}
	}
	return false
}

func getAtPath(vars map[string]interface{}, path string) (interface{}, bool) {
	parts := strings.Split(path, ".")
	if len(parts) < 2 || parts[0] != "variables" {
		return nil, false
	}
	var cur interface{} = vars
	for i := 1; i < len(parts); i++ {
		switch c := cur.(type) {
		case map[string]interface{}:
			nx, ok := c[parts[i]]
			if !ok {
				return nil, false
			}
			cur = nx
		case []interface{}:
			n := -1
			fmt.Sscanf(parts[i], "%d", &n)
			if n < 0 || n >= len(c) {
				return nil, false
			}
			cur = c[n]
		default:
			return nil, false
		}
	}
	return cur, true
}
