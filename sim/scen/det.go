package scen

import (
	"encoding/json"
	"fmt"
	"sort"
	"strings"
	"sync/atomic"
	"time"

	"github.com/vektah/gqlparser/v2/ast"

	"verif/sim/gql"
	"verif/sim/sched"
)

// C13: the same operation k times on one gateway under k different schedules.

func init() {
	Registry["C13"] = func(s *sched.Sim, cfg Config, res *Result) {
		// one run in five: the same subscription event delivered several times
		if s.T.Choose(5) == 0 {
			scenSUB(s, cfg, res)
			return
		}
		scenDET(s, cfg, res)
	}
}

func errKey(e map[string]interface{}) string {
	b, _ := json.Marshal(map[string]interface{}{"m": e["message"], "p": e["path"], "x": e["extensions"]})
	return string(b)
}

func scenDET(s *sched.Sim, cfg Config, res *Result) {
	prop := "C13"
	wf := worldFeatures(s, cfg)
	of := opFeatures(s, cfg)
	maxSvc, k := 3, 8
	if cfg.Thorough {
		maxSvc, k = 4, 32
	}
	// determinism is demanded of every operation, also of the shapes whose *answers* are known to
	// be wrong (open findings of C01/C02, switched off elsewhere): one run in three draws them
	wild := s.T.Bool(1, 3)
	if wild {
		res.Probe("det.shapes-of-open-findings")
		wf.Unions = s.T.Bool(1, 2)
		for _, p := range []*bool{&of.AbstractFrags, &of.AbstractNested, &of.AbstractCondFrag, &of.AbstractFragMeta,
			&of.IDWithFragments, &of.IDDirective, &of.FragDirectives, &of.NodeRoot, &of.VarNamedID} {
			*p = s.T.Bool(1, 2)
		}
		on, off := parseFeat(cfg.Features)
		applyWorldOverrides(&wf, on, off)
		applyOpOverrides(&of, on, off)
	}
	w := gql.Generate(s.T, wf, maxSvc)
	gc := drawGwConfig(s)
	gc.OrderSeach = true
	if gc.Sanitize {
		of.NodeRoot = false
	}
	if s.T.Bool(1, 4) {
		gc.DefaultFactory = true
		res.Probe("det.gateway-default-queryer-factory")
	}
	env, err := newFedEnv(s, res, w, gc, prop)
	if err != nil {
		res.Verdict, res.Anomaly = "anomaly", "gateway start-up failed on a generated world: "+err.Error()
		return
	}
	kind := ast.Query
	if w.Union.Mutation != nil && s.T.Bool(1, 5) {
		kind = ast.Mutation
	}
	op := gql.GenOp(s.T, w, w.Union, kind, of, 4, 24)
	// content-keyed failures: a pure function of (service, sub-request text, variables)
	poison := 0
	if s.T.Bool(1, 3) {
		poison = 1 + s.T.Choose(3)
	}
	salt := fmt.Sprint(s.T.Choose(1 << 20))
	env.net.FaultFor = poisonFault(poison, salt)
	type rep struct {
		data   string
		errs   []string
		wire   map[int][]string
		status int
	}
	var reps []rep
	var together []rep // answers to the operation sent several times at once
	atOnceFirst := s.T.Bool(1, 2)
	var done atomic.Bool
	var idx atomic.Int32
	s.Go("client", func() {
		// (on a cold plan cache when it comes first)
		atOnce := func() {
			// the same operation several times at once: as the elements of one batch, and from two
			// clients side by side (every answer must be the answer of the repetitions above). Queries
			// only: a mutation repeated inside one request is not "the same request again".
			if kind == ast.Query {
				one := clientReq{Query: op.Text, Variables: op.Vars, OperationName: op.OpName}
				keyOf := func(g *gwResult) (string, string) {
					if g == nil {
						return "<no result>", ""
					}
					b, _ := json.Marshal(g.Data)
					var es []string
					for _, e := range g.Errors {
						es = append(es, errKey(e))
					}
					sort.Strings(es)
					return string(b), strings.Join(es, "|")
				}
				cr := env.post("rb", []clientReq{one, one, one}, true)
				for i, g := range cr.Batch {
					d, e := keyOf(g)
					together = append(together, rep{data: d, errs: []string{e}, status: 1000 + i})
				}
				var n atomic.Int32
				side := make([]*clientResp, 2)
				for j := 0; j < 2; j++ {
					j := j
					s.Go(fmt.Sprintf("side%d", j), func() {
						side[j] = env.post(fmt.Sprintf("rs%d", j), []clientReq{one}, false)
						n.Add(1)
					})
				}
				for n.Load() < 2 {
					s.Park("wait-overlap")
				}
				for j, c := range side {
					d, e := keyOf(c.Single)
					together = append(together, rep{data: d, errs: []string{e}, status: 2000 + j})
				}
				res.Probe("det.same-operation-several-times-at-once")
			}
		}
		if atOnceFirst {
			atOnce()
		}
		for i := 0; i < k; i++ {
			idx.Store(int32(i))
			wireFrom := len(env.wire)
			cr := env.post(fmt.Sprintf("r%d", i), []clientReq{{Query: op.Text, Variables: op.Vars, OperationName: op.OpName}}, false)
			r := rep{status: cr.Status, wire: map[int][]string{}}
			if cr.Single != nil {
				b, _ := json.Marshal(cr.Single.Data)
				r.data = string(b)
				for _, e := range cr.Single.Errors {
					r.errs = append(r.errs, errKey(e))
				}
				sort.Strings(r.errs)
			} else {
				r.data = "undecodable:" + cr.BadJSON + cr.Panic
			}
			for _, wr := range env.wire[wireFrom:] {
				vb, _ := json.Marshal(wr.Vars)
				r.wire[wr.Svc] = append(r.wire[wr.Svc], wr.Text+"\x00"+string(vb))
			}
			for _, l := range r.wire {
				sort.Strings(l)
			}
			reps = append(reps, r)
			// a different schedule for the next repetition
			s.SetPolicy(drawPolicyOn(s))
		}
		if !atOnceFirst {
			atOnce()
		}
		done.Store(true)
	})
	s.Policy = drawPolicy(s)
	end := s.Run(func() bool { return done.Load() && len(s.Alive()) == 0 }, 400000, 10*time.Second)
	if end == sched.Hang {
		res.Violate(prop+"/hang", "repetition %d did not finish: parked=%v", idx.Load(), s.ParkedLabels())
	} else if end == sched.StepBudget {
		res.Verdict, res.Anomaly = "anomaly", "step budget exhausted in DET"
		return
	}
	stitched := false
	for _, p := range env.plans["r0#0"] {
		for _, st := range planSteps(p) {
			if len(st.InsertionPoint) > 0 {
				stitched = true
			}
		}
	}
	distinctOrders := map[string]bool{}
	for i := range reps {
		type od struct {
			url string
			seq int
		}
		var ods []od
		for _, m := range env.net.Log {
			if strings.HasPrefix(m.Tag, fmt.Sprintf("r%d#", i)) {
				ods = append(ods, od{m.URL + "/" + hashShort(m.Body), m.DeliverSeq})
			}
		}
		sort.Slice(ods, func(a, b int) bool { return ods[a].seq < ods[b].seq })
		var order []string
		for _, o := range ods {
			order = append(order, o.url)
		}
		distinctOrders[strings.Join(order, ",")] = true
	}
	if len(reps) > 0 {
		for _, t := range together {
			how := "as element of a batch of three"
			if t.status >= 2000 {
				how = "next to the same operation from another client"
			}
			if t.data != reps[0].data {
				res.Violate(prop+"/data-differs-when-sent-at-once", "the operation sent %s answers %s\nsent alone it answers %s\nop: %s vars: %v", how, clipStr(t.data, 500), clipStr(reps[0].data, 500), op.Text, op.Vars)
			} else if t.errs[0] != strings.Join(reps[0].errs, "|") {
				res.Violate(prop+"/errors-differ-when-sent-at-once", "the operation sent %s has errors %v, sent alone %v\nop: %s", how, t.errs, reps[0].errs, op.Text)
			}
		}
	}
	if len(reps) > 1 {
		res.Checks++
		for i := 1; i < len(reps); i++ {
			a, b := reps[0], reps[i]
			if a.status != b.status {
				res.Violate(prop+"/status-differs", "repetition 0 status %d, repetition %d status %d", a.status, i, b.status)
			}
			if a.data != b.data {
				pa, pb := "", ""
				if ps := env.plans["r0#0"]; len(ps) > 0 && ps[0] != nil {
					sfj, _ := json.Marshal(ps[0].ScrubFields)
					pa = planText(ps[0]) + " scrub=" + string(sfj)
				}
				if ps := env.plans[fmt.Sprintf("r%d#0", i)]; len(ps) > 0 && ps[0] != nil {
					sfj, _ := json.Marshal(ps[0].ScrubFields)
					pb = planText(ps[0]) + " scrub=" + string(sfj)
				}
				res.Violate(prop+"/data-differs", "same operation, same gateway, same service answers: repetition 0 data %s\nrepetition %d data %s\nop: %s vars: %v\nplan of repetition 0: %s\nplan of repetition %d: %s", clipStr(a.data, 500), i, clipStr(b.data, 500), op.Text, op.Vars, pa, i, pb)
			}
			if strings.Join(a.errs, "|") != strings.Join(b.errs, "|") {
				res.Violate(prop+"/errors-differ", "same operation: repetition 0 errors %v\nrepetition %d errors %v\nop: %s", a.errs, i, b.errs, op.Text)
			}
			for svc := 0; svc < w.K; svc++ {
				if strings.Join(a.wire[svc], "\x01") != strings.Join(b.wire[svc], "\x01") {
					res.Violate(prop+"/subrequests-differ", "service %d received a different multiset of sub-requests in repetition %d:\nrep 0: %v\nrep %d: %v\nop: %s", svc, i, clipStr(fmt.Sprint(a.wire[svc]), 600), i, clipStr(fmt.Sprint(b.wire[svc]), 600), op.Text)
					break
				}
			}
		}
	}
	hadErrors := len(reps) > 0 && len(reps[0].errs) > 0
	res.ProbeN("det.repetitions", len(reps))
	res.ProbeN("det.distinct-delivery-orders", len(distinctOrders))
	res.ProbeN("det.errors-nonempty-case", b2i(hadErrors))
	res.ProbeN("det.plan-order-draws", s.OrderDraws)
	for kf, v := range env.net.Fired {
		for i := 0; i < v; i++ {
			res.Fault(kf)
		}
	}
	res.Nontrivial = stitched && len(reps) == k && len(distinctOrders) > 1
	res.Key = HashKey(w.UnionSDL, fmt.Sprint(w.Salt), op.Text, fmt.Sprint(op.Vars), gc.String(), fmt.Sprintf("%x", s.TraceHash()))
	res.SchedKey = fmt.Sprintf("%x", s.TraceHash())
	res.Sample = map[string]any{"services": w.ServiceSDL, "gateway": gc.String(), "operation": op.Text, "variables": op.Vars, "repetitions": len(reps),
		"distinct_delivery_orders": len(distinctOrders), "poison_level": poison, "errors_in_answer": hadErrors}
}

func hashShort(b []byte) string { return HashKey(string(b))[:6] }
