package scen

import (
	"bytes"
	"encoding/json"
	"fmt"
	"mime/multipart"
	"net/http"
	"net/http/httptest"
	"strconv"
	"strings"
	"time"

	"github.com/vektah/gqlparser/v2"
	"github.com/vektah/gqlparser/v2/ast"

	"verif/sim/gql"
	"verif/sim/sched"
	"verif/sim/simnet"
)

// C07: every HTTP request gets a well-formed response; none can crash the gateway.

func init() { Registry["C07"] = scenING }

type ingCase struct {
	kind        string
	contentType string
	body        []byte
	chunks      []int
	failAt      int
	failErr     bool
	// expectation by the independent strict decoder
	decodable bool
	batch     bool
	n         int
	// for decodable requests: which elements are valid operations
	elems []clientReq
}

// strictDecode is an independent decoder of the documented request shape.
func strictDecode(body []byte) (elems []clientReq, batch bool, ok bool) {
	var v interface{}
	dec := json.NewDecoder(bytes.NewReader(body))
	if err := dec.Decode(&v); err != nil {
		return nil, false, false
	}
	if dec.More() {
		return nil, false, false
	}
	one := func(x interface{}) (clientReq, bool) {
		m, isObj := x.(map[string]interface{})
		if !isObj {
			return clientReq{}, false
		}
		q, isStr := m["query"].(string)
		if !isStr || q == "" {
			return clientReq{}, false
		}
		r := clientReq{Query: q}
		if vv, has := m["variables"]; has && vv != nil {
			vm, isMap := vv.(map[string]interface{})
			if !isMap {
				return clientReq{}, false
			}
			r.Variables = vm
		}
		if on, has := m["operationName"]; has && on != nil {
			s, isStr := on.(string)
			if !isStr {
				return clientReq{}, false
			}
			r.OperationName = &s
		}
		return r, true
	}
	switch t := v.(type) {
	case map[string]interface{}:
		r, ok := one(t)
		return []clientReq{r}, false, ok
	case []interface{}:
		out := []clientReq{}
		for _, x := range t {
			r, ok := one(x)
			if !ok {
				return nil, true, false
			}
			out = append(out, r)
		}
		return out, true, true
	}
	return nil, false, false
}

// resolveUploadPath: independent check that a file-map path designates a null leaf.
func resolveUploadPath(elems []clientReq, batch bool, path string) bool {
	parts := strings.Split(path, ".")
	idx := 0
	if batch {
		n, err := strconv.Atoi(parts[0])
		if err != nil || n < 0 || n >= len(elems) || strings.TrimSpace(parts[0]) != parts[0] || (len(parts[0]) > 1 && parts[0][0] == '0') || parts[0][0] == '+' || parts[0][0] == '-' {
			return false
		}
		idx = n
		parts = parts[1:]
	}
	if len(parts) < 2 || parts[0] != "variables" {
		return false
	}
	var cur interface{} = map[string]interface{}(elems[idx].Variables)
	if elems[idx].Variables == nil {
		return false
	}
	for i := 1; i < len(parts); i++ {
		switch c := cur.(type) {
		case map[string]interface{}:
			v, ok := c[parts[i]]
			if !ok {
				return false
			}
			if i == len(parts)-1 {
				return v == nil
			}
			cur = v
		case []interface{}:
			n, err := strconv.Atoi(parts[i])
			if err != nil || n < 0 || n >= len(c) || (len(parts[i]) > 1 && parts[i][0] == '0') || parts[i][0] == '+' {
				return false
			}
			if i == len(parts)-1 {
				return c[n] == nil
			}
			cur = c[n]
		default:
			return false
		}
	}
	return false
}

type mpSpec struct {
	operations *string
	fmap       *string
	files      map[string][]byte
	order      []string
}

func buildMultipart(sp mpSpec) ([]byte, string) {
	var b bytes.Buffer
	mw := multipart.NewWriter(&b)
	mw.SetBoundary("simboundary7d1c9a")
	if sp.operations != nil {
		mw.WriteField("operations", *sp.operations)
	}
	if sp.fmap != nil {
		mw.WriteField("map", *sp.fmap)
	}
	for _, k := range sp.order {
		fw, _ := mw.CreateFormFile(k, "file-"+k+".txt")
		fw.Write(sp.files[k])
	}
	mw.Close()
	return b.Bytes(), mw.FormDataContentType()
}

func scenING(s *sched.Sim, cfg Config, res *Result) {
	prop := "C07"
	s.Policy = drawPolicy(s)
	wf := worldFeatures(s, cfg)
	of := opFeatures(s, cfg)
	wf.EmptyAbstract = s.T.Bool(1, 3)
	if on, off := parseFeat(cfg.Features); on["empty-abstract"] {
		wf.EmptyAbstract = true
	} else if off["empty-abstract"] {
		wf.EmptyAbstract = false
	}
	w := gql.Generate(s.T, wf, 3)
	gc := drawGwConfig(s)
	if gc.Sanitize {
		of.NodeRoot = false
	}
	env, err := newFedEnv(s, res, w, gc, prop)
	if err != nil {
		res.Verdict, res.Anomaly = "anomaly", "gateway start-up failed on a generated world: "+err.Error()
		return
	}
	valid := gql.GenOp(s.T, w, w.Union, ast.Query, of, 3, 10)
	probe := gql.GenOp(s.T, w, w.Union, ast.Query, of, 3, 8)
	validJSON, _ := json.Marshal(clientReq{Query: valid.Text, Variables: valid.Vars, OperationName: valid.OpName})
	vq, _ := json.Marshal(valid.Text)
	q := string(vq)
	opn := ""
	if valid.OpName != nil {
		opn = `, "operationName": "` + *valid.OpName + `"`
	}
	str := func(s string) *string { return &s }

	var cases []ingCase
	addRaw := func(kind, ct string, body string) {
		c := ingCase{kind: kind, contentType: ct, body: []byte(body), failAt: -1}
		if ct == "application/json" || ct == "text/plain" || ct == "" || strings.HasPrefix(ct, "application/json;") {
			c.elems, c.batch, c.decodable = strictDecode(c.body)
			c.n = len(c.elems)
		}
		cases = append(cases, c)
	}
	jsonShapes := []struct{ kind, body string }{
		{"json-null", `null`},
		{"json-array-of-null", `[null]`},
		{"json-array-of-null-and-valid", `[` + string(validJSON) + `, null]`},
		{"json-array-of-number", `[1]`},
		{"json-array-of-string", `["x"]`},
		{"json-array-of-empty-object", `[{}]`},
		{"json-empty-object", `{}`},
		{"json-empty-array", `[]`},
		{"json-query-number", `{"query": 1}`},
		{"json-query-null", `{"query": null}`},
		{"json-query-empty", `{"query": ""}`},
		{"json-variables-string", `{"query": ` + q + `, "variables": "x"}`},
		{"json-variables-array", `{"query": ` + q + `, "variables": [1]}`},
		{"json-variables-null", `{"query": ` + q + `, "variables": null}`},
		{"json-operation-name-number", `{"query": ` + q + `, "operationName": 5}`},
		{"json-operation-name-null", `{"query": ` + q + `, "operationName": null}`},
		{"json-nested-array", `[[` + string(validJSON) + `]]`},
		{"json-leading-whitespace", " \n\t " + string(validJSON)},
		{"json-leading-whitespace-batch", " \n [" + string(validJSON) + "]"},
		{"json-truncated", string(validJSON[:len(validJSON)/2])},
		{"json-trailing-garbage", string(validJSON) + " xyz"},
		{"json-string", `"[{"`},
		{"json-number", `42`},
		{"json-true", `true`},
		{"json-empty-body", ``},
		{"json-bom", "\xef\xbb\xbf" + string(validJSON)},
		{"json-extra-members", `{"query": ` + q + `, "extensions": {"a": [1, {"b": null}]}, "zz": 1}`},
		{"json-batch-valid-and-missing-query", `[` + string(validJSON) + `, {"variables": {}}]`},
		{"json-batch-two-valid", `[` + string(validJSON) + `, ` + string(validJSON) + `]`},
		{"json-deeply-nested-extra-variable", func() string {
			m := map[string]interface{}{}
			for k, v := range valid.Vars {
				m[k] = v
			}
			m["zzDeep"] = json.RawMessage(strings.Repeat(`[`, 200) + strings.Repeat(`]`, 200))
			vb, _ := json.Marshal(m)
			return `{"query": ` + q + `, "variables": ` + string(vb) + opn + `}`
		}()},
		{"gql-syntax-error", `{"query": "{ a { "}`},
		{"gql-unknown-field", `{"query": "{ zzNoSuchField }"}`},
		{"gql-only-fragment", `{"query": "fragment F on Query { __typename }"}`},
		{"gql-empty-selection", `{"query": "{ }"}`},
		{"gql-introspection", `{"query": "{ __schema { queryType { name } } }"}`},
		{"gql-subscription-over-post", `{"query": "subscription { zz }"}`},
	}
	// introspection operations (answered locally by the gateway) in legal but unusual shapes
	introspection := []struct{ kind, query, vars string }{
		{"introspection-enum-values-literal", `{ __type(name: "__TypeKind") { name enumValues(includeDeprecated: true) { name isDeprecated } } }`, ``},
		{"introspection-enum-values-variable-true", `query($d: Boolean) { __type(name: "__TypeKind") { enumValues(includeDeprecated: $d) { name } } }`, `{"d": true}`},
		{"introspection-enum-values-variable-omitted", `query($d: Boolean) { __type(name: "__TypeKind") { enumValues(includeDeprecated: $d) { name } } }`, ``},
		{"introspection-enum-values-variable-null", `query($d: Boolean) { __type(name: "__DirectiveLocation") { enumValues(includeDeprecated: $d) { name } } }`, `{"d": null}`},
		{"introspection-enum-values-null-literal", `{ __type(name: "__TypeKind") { enumValues(includeDeprecated: null) { name } } }`, ``},
		{"introspection-fields-variable-omitted", `query($d: Boolean) { __type(name: "Query") { fields(includeDeprecated: $d) { name args { name defaultValue type { kind name ofType { kind name } } } } } }`, ``},
		{"introspection-fields-variable-null", `query($d: Boolean) { __schema { types { name fields(includeDeprecated: $d) { name } enumValues(includeDeprecated: $d) { name } inputFields { name } interfaces { name } possibleTypes { name } } } }`, `{"d": null}`},
		{"introspection-type-by-variable", `query($n: String!) { __type(name: $n) { kind name description } }`, `{"n": "Query"}`},
		{"introspection-type-unknown", `{ __type(name: "ZzNoSuchType") { kind name } }`, ``},
		{"introspection-type-variable-missing", `query($n: String!) { __type(name: $n) { name } }`, ``},
		{"introspection-aliases-fragments", `query { s: __schema { q: queryType { ...T } mutationType { ...T } subscriptionType { ...T } directives { name locations args { ...V } } } } fragment T on __Type { kind name ofType { kind name } } fragment V on __InputValue { name defaultValue type { ...T } }`, ``},
		{"introspection-typename-inside", `{ __schema { __typename types { __typename name } } }`, ``},
		{"introspection-mixed-with-data", `{ __schema { queryType { name } } ` + strings.TrimPrefix(strings.TrimSpace(rootFieldOnly(valid.Text)), "{") + ``, ``},
	}
	for _, in := range introspection {
		qb, _ := json.Marshal(in.query)
		body := `{"query": ` + string(qb)
		if in.vars != "" {
			body += `, "variables": ` + in.vars
		}
		body += `}`
		addRaw(in.kind, "application/json", body)
	}
	for _, js := range jsonShapes {
		ct := []string{"application/json", "application/json", "text/plain", "", "application/json; charset=utf-8"}[s.T.Choose(5)]
		addRaw(js.kind, ct, js.body)
	}
	addRaw("gql-root-typename", "application/json", `{"query": "{ __typename }"}`)
	// root node lookups (only that the answer is well-formed and the gateway survives; what they
	// return is the business of C01, where root lookups are an open finding)
	for _, en := range w.EntityNames() {
		if w.Union.Types[en] == nil {
			continue
		}
		idq, _ := json.Marshal(fmt.Sprintf(`{ node(id: %q) { ... on %s { id } } }`, w.EntityID(en, 0), en))
		addRaw("gql-node-root-id-only", "application/json", `{"query": `+string(idq)+`}`)
		tnq, _ := json.Marshal(fmt.Sprintf(`{ node(id: %q) { __typename id } n2: node(id: "no-such-id") { id } }`, w.EntityID(en, 1)))
		addRaw("gql-node-root-typename", "application/json", `{"query": `+string(tnq)+`}`)
	}
	// a lookup with fragments on every entity type: each service that declares one of the selected
	// fields gets it, the ones that do not know the object answer null - in whatever order
	{
		var frags []string
		first := ""
		for _, en := range w.EntityNames() {
			d := w.Union.Types[en]
			if d == nil {
				continue
			}
			for _, f := range d.Fields {
				if dd := w.Union.Types[f.Type.Name()]; (dd == nil || dd.Kind == ast.Scalar || dd.Kind == ast.Enum) && len(f.Arguments) == 0 && f.Name != "id" && !strings.HasPrefix(f.Name, "__") {
					frags = append(frags, fmt.Sprintf("... on %s { %s }", en, f.Name))
					if first == "" {
						first = en
					}
					break
				}
			}
		}
		if len(frags) >= 2 {
			q, _ := json.Marshal(fmt.Sprintf(`{ node(id: %q) { %s } }`, w.EntityID(first, 0), strings.Join(frags, " ")))
			addRaw("gql-node-root-fragments-on-several-types", "application/json", `{"query": `+string(q)+`}`)
		}
	}
	if wf.EmptyAbstract {
		addRaw("gql-abstract-type-without-members", "application/json", `{"query": "{ qLonely { id } }"}`)
		addRaw("gql-abstract-type-without-members-typename", "application/json", `{"query": "{ qLonely { __typename } }"}`)
	}
	addRaw("content-type-xml", "application/xml", string(validJSON))
	addRaw("content-type-form", "application/x-www-form-urlencoded", "query=%7Ba%7D")
	addRaw("content-type-graphql", "application/graphql", valid.Text)
	// stream faults on a valid JSON body: every interesting cut point
	cuts := []int{0, 1, len(validJSON) / 3, len(validJSON) / 2, len(validJSON) - 1}
	for _, k := range cuts {
		for _, withErr := range []bool{true, false} {
			c := ingCase{kind: "stream-cut-json", contentType: "application/json", body: validJSON, failAt: k, failErr: withErr, chunks: []int{1 + s.T.Choose(7), 1 + s.T.Choose(64)}}
			cases = append(cases, c)
		}
	}
	// short reads only (no fault): must behave like the plain request
	{
		c := ingCase{kind: "stream-short-reads", contentType: "application/json", body: validJSON, failAt: -1, chunks: []int{1, 2, 3}}
		c.elems, c.batch, c.decodable = strictDecode(c.body)
		c.n = 1
		cases = append(cases, c)
	}
	// multipart layouts
	opsSingle := `{"query": ` + q + `, "variables": {"f": null, "o": {"g": null, "l": [null, null], "s": "set"}, "l": [null]}}`
	opsBatch := `[` + opsSingle + `, ` + opsSingle + `]`
	type mp struct {
		kind string
		sp   mpSpec
	}
	f1 := map[string][]byte{"0": []byte("content-zero"), "1": []byte("content-one")}
	mps := []mp{
		{"mp-ok-single", mpSpec{operations: str(opsSingle), fmap: str(`{"0": ["variables.f"], "1": ["variables.o.l.1"]}`), files: f1, order: []string{"0", "1"}}},
		{"mp-ok-batch", mpSpec{operations: str(opsBatch), fmap: str(`{"0": ["0.variables.f"], "1": ["1.variables.o.g"]}`), files: f1, order: []string{"0", "1"}}},
		{"mp-no-operations", mpSpec{fmap: str(`{"0": ["variables.f"]}`), files: f1, order: []string{"0"}}},
		{"mp-no-map", mpSpec{operations: str(opsSingle), files: f1, order: []string{"0"}}},
		{"mp-map-not-json", mpSpec{operations: str(opsSingle), fmap: str(`{"0": `), files: f1, order: []string{"0"}}},
		{"mp-map-empty", mpSpec{operations: str(opsSingle), fmap: str(`{}`), files: f1, order: []string{"0"}}},
		{"mp-map-wrong-shape", mpSpec{operations: str(opsSingle), fmap: str(`{"0": "variables.f"}`), files: f1, order: []string{"0"}}},
		{"mp-map-null", mpSpec{operations: str(opsSingle), fmap: str(`null`), files: f1, order: []string{"0"}}},
		{"mp-file-part-missing", mpSpec{operations: str(opsSingle), fmap: str(`{"7": ["variables.f"]}`), files: f1, order: []string{"0"}}},
		{"mp-path-without-variables", mpSpec{operations: str(opsSingle), fmap: str(`{"0": ["f"]}`), files: f1, order: []string{"0"}}},
		{"mp-path-only-variables", mpSpec{operations: str(opsSingle), fmap: str(`{"0": ["variables"]}`), files: f1, order: []string{"0"}}},
		{"mp-path-empty", mpSpec{operations: str(opsSingle), fmap: str(`{"0": [""]}`), files: f1, order: []string{"0"}}},
		{"mp-path-unknown-key", mpSpec{operations: str(opsSingle), fmap: str(`{"0": ["variables.nope"]}`), files: f1, order: []string{"0"}}},
		{"mp-path-to-non-null", mpSpec{operations: str(opsSingle), fmap: str(`{"0": ["variables.o.s"]}`), files: f1, order: []string{"0"}}},
		{"mp-path-through-scalar", mpSpec{operations: str(opsSingle), fmap: str(`{"0": ["variables.o.s.x"]}`), files: f1, order: []string{"0"}}},
		{"mp-list-index-out-of-range", mpSpec{operations: str(opsSingle), fmap: str(`{"0": ["variables.o.l.5"]}`), files: f1, order: []string{"0"}}},
		{"mp-list-index-negative", mpSpec{operations: str(opsSingle), fmap: str(`{"0": ["variables.o.l.-1"]}`), files: f1, order: []string{"0"}}},
		{"mp-list-index-not-a-number", mpSpec{operations: str(opsSingle), fmap: str(`{"0": ["variables.o.l.x"]}`), files: f1, order: []string{"0"}}},
		{"mp-list-without-index", mpSpec{operations: str(opsSingle), fmap: str(`{"0": ["variables.l"]}`), files: f1, order: []string{"0"}}},
		{"mp-duplicate-path", mpSpec{operations: str(opsSingle), fmap: str(`{"0": ["variables.f", "variables.f"]}`), files: f1, order: []string{"0"}}},
		{"mp-batch-index-out-of-range", mpSpec{operations: str(opsBatch), fmap: str(`{"0": ["5.variables.f"]}`), files: f1, order: []string{"0"}}},
		{"mp-batch-index-negative", mpSpec{operations: str(opsBatch), fmap: str(`{"0": ["-1.variables.f"]}`), files: f1, order: []string{"0"}}},
		{"mp-batch-index-only", mpSpec{operations: str(opsBatch), fmap: str(`{"0": ["0"]}`), files: f1, order: []string{"0"}}},
		{"mp-batch-index-missing", mpSpec{operations: str(opsBatch), fmap: str(`{"0": ["variables.f"]}`), files: f1, order: []string{"0"}}},
		{"mp-single-with-batch-index", mpSpec{operations: str(opsSingle), fmap: str(`{"0": ["0.variables.f"]}`), files: f1, order: []string{"0"}}},
		{"mp-operations-null", mpSpec{operations: str(`null`), fmap: str(`{"0": ["variables.f"]}`), files: f1, order: []string{"0"}}},
		{"mp-operations-array-of-null", mpSpec{operations: str(`[null]`), fmap: str(`{"0": ["0.variables.f"]}`), files: f1, order: []string{"0"}}},
		{"mp-operations-no-variables", mpSpec{operations: str(`{"query": ` + q + `}`), fmap: str(`{"0": ["variables.f"]}`), files: f1, order: []string{"0"}}},
	}
	for _, m := range mps {
		body, ct := buildMultipart(m.sp)
		c := ingCase{kind: m.kind, contentType: ct, body: body, failAt: -1}
		// strict expectation
		if m.sp.operations != nil && m.sp.fmap != nil {
			elems, batch, ok := strictDecode([]byte(*m.sp.operations))
			var fm map[string][]string
			if ok && json.Unmarshal([]byte(*m.sp.fmap), &fm) == nil && len(fm) > 0 {
				good := true
				seen := map[string]bool{}
				for k, paths := range fm {
					if _, has := m.sp.files[k]; !has || !contains(m.sp.order, k) {
						good = false
					}
					for _, p := range paths {
						if seen[p] || !resolveUploadPath(elems, batch, p) {
							good = false
						}
						seen[p] = true
					}
				}
				if good {
					c.decodable, c.batch, c.elems, c.n = true, batch, elems, len(elems)
				}
			}
		}
		cases = append(cases, c)
	}
	// multipart stream cut inside a part
	{
		body, ct := buildMultipart(mps[0].sp)
		for _, k := range []int{len(body) / 4, len(body) / 2, len(body) - 20} {
			cases = append(cases, ingCase{kind: "stream-cut-multipart", contentType: ct, body: body, failAt: k, failErr: s.T.Bool(1, 2), chunks: []int{1 + s.T.Choose(50)}})
		}
	}
	// run a drawn subset so that runs stay short but all kinds are reached over many runs
	perm := s.T.Perm(len(cases))
	take := 12
	if cfg.Thorough {
		take = 30
	}
	if take > len(cases) {
		take = len(cases)
	}
	probeWant := env.reference(probe)
	unknownLen := make([]bool, take)
	for i := range unknownLen {
		unknownLen[i] = s.T.Bool(1, 3)
	}
	done := false
	var ran []string
	s.Go("client", func() {
		defer func() { done = true }()
		for i := 0; i < take; i++ {
			c := cases[perm[i]]
			ran = append(ran, c.kind)
			tag := fmt.Sprintf("i%d", i)
			body := &simnet.Body{Data: c.body, Chunks: c.chunks, FailAt: c.failAt}
			if c.failErr {
				body.FailErr = simnet.ErrBodyReset
			}
			r := httptest.NewRequest(http.MethodPost, "/graphql", body)
			r.ContentLength = int64(len(c.body))
			if unknownLen[i] {
				// chunked transfer: no declared length
				r.ContentLength = -1
				r.TransferEncoding = []string{"chunked"}
				res.Probe("ing.undeclared-content-length")
			}
			if c.contentType != "" {
				r.Header.Set("Content-Type", c.contentType)
			} else {
				r.Header.Del("Content-Type")
			}
			r.Header.Set("X-Sim-Client", tag)
			pe := make([]pendingEl, len(c.elems))
			for j, el := range c.elems {
				pe[j] = pendingEl{key: elKey(el.Query, el.OperationName, el.Variables), short: elKey(el.Query, el.OperationName, nil)}
			}
			env.pending[tag] = pe
			cr := env.do(r)
			res.Checks++
			res.Probe("ing.case:" + c.kind)
			if c.failAt >= 0 {
				// the request body stream breaks off (with or without a read error)
				if c.failErr {
					res.Fault("request-body-read-error:" + c.kind)
				} else {
					res.Fault("request-body-ends-early:" + c.kind)
				}
			}
			fail := func(sig, format string, args ...any) {
				res.Violate(prop+"/"+sig+":"+c.kind, "request %s (content type %q, body %q, stream cut at %d): %s\nresponse status %d body %s", c.kind, c.contentType, clipStr(string(c.body), 300), c.failAt, fmt.Sprintf(format, args...), cr.Status, clipStr(string(cr.Raw), 300))
			}
			wantDecodable := c.decodable && c.failAt < 0
			switch {
			case cr.Panic != "":
				fail("handler-panic", "the handler panicked: %s", cr.Panic)
			case cr.BadJSON != "":
				fail("malformed-response", "the response is not JSON carrying data and/or errors: %s", cr.BadJSON)
			case !wantDecodable:
				if cr.Status != 422 {
					fail("status", "the request cannot be decoded, want status 422")
				} else if cr.Single == nil || len(cr.Single.Errors) == 0 {
					fail("no-errors", "an undecodable request must be answered with errors")
				}
			default:
				if cr.Status != 200 {
					fail("status", "the request is decodable, want status 200")
					break
				}
				var results []*gwResult
				if c.batch {
					if cr.Batch == nil || len(cr.Batch) != c.n {
						fail("batch-shape", "want an array of %d results", c.n)
						break
					}
					results = cr.Batch
				} else {
					if cr.Single == nil {
						fail("single-shape", "want a single result object")
						break
					}
					results = []*gwResult{cr.Single}
				}
				for j, g := range results {
					if !g.hasData && len(g.Errors) == 0 {
						fail("empty-result", "result %d carries neither data nor errors", j)
					}
					// document validity and operation selection only: coercion of variable values is
					// left to the services by design and is not what the property calls invalid
					if why := docInvalid(w.Union, c.elems[j]); why != "" {
						if len(g.Errors) == 0 || g.Data != nil {
							fail("invalid-operation-not-rejected", "operation %d is invalid against the schema (%v) and must be answered with errors and data: null", j, clipStr(why, 120))
						}
					}
				}
			}
			// liveness: the next request is served correctly
			pr := env.post(tag+"p", []clientReq{{Query: probe.Text, Variables: probe.Vars, OperationName: probe.OpName}}, false)
			if pr.Single == nil || len(pr.Single.Errors) > 0 || compareData(probeWant, pr.Single) != "" {
				res.Violate(prop+"/next-request-affected:"+c.kind, "after request %s the next (valid) request was not answered correctly: %s", c.kind, clipStr(string(pr.Raw), 300))
			}
		}
	})
	end := s.Run(func() bool { return done && len(s.Alive()) == 0 }, 800000, 10*time.Second)
	if end == sched.Hang {
		last := "?"
		if len(ran) > 0 {
			last = ran[len(ran)-1]
		}
		res.Violate(prop+"/hang:"+last, "the handler did not return for request %s: parked=%v", last, s.ParkedLabels())
	} else if end == sched.StepBudget {
		res.Verdict, res.Anomaly = "anomaly", "step budget exhausted in ING"
		return
	}
	res.Nontrivial = len(ran) >= 5
	res.Key = HashKey(w.UnionSDL, valid.Text, strings.Join(ran, ","), gc.String())
	res.SchedKey = fmt.Sprintf("%x", s.TraceHash())
	res.Sample = map[string]any{"gateway": gc.String(), "requests_in_order": ran, "valid_operation_used_in_bodies": valid.Text, "probe_operation": probe.Text, "total_case_kinds": len(cases)}
}

func contains(ss []string, s string) bool {
	for _, x := range ss {
		if x == s {
			return true
		}
	}
	return false
}

func docInvalid(schema *ast.Schema, r clientReq) string {
	doc, errs := gqlparser.LoadQuery(schema, r.Query)
	if errs != nil {
		return errs.Error()
	}
	var o *ast.OperationDefinition
	if r.OperationName != nil {
		o = doc.Operations.ForName(*r.OperationName)
	} else if len(doc.Operations) == 1 {
		o = doc.Operations[0]
	}
	if o == nil {
		return "operation cannot be selected"
	}
	return ""
}

// rootFieldOnly turns a generated anonymous/named query into its bare selection set text when
// that is trivially possible (no variables, no fragments); otherwise "{ __typename }".
func rootFieldOnly(text string) string {
	t := strings.TrimSpace(text)
	if strings.HasPrefix(t, "{") && !strings.Contains(t, "fragment ") && !strings.Contains(t, "\n") {
		return t
	}
	return "{ __typename }"
}
