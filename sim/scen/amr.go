package scen

import (
	"errors"
	"fmt"
	"sort"
	"strings"
	"sync"
	"time"

	"github.com/buildbuildio/pebbles/common"
	"github.com/buildbuildio/pebbles/gqlerrors"

	"verif/sim/sched"
)

// C20: the real common.AsyncMapReduce alone under the scheduler.

type amrItem struct {
	idx      int
	fail     int // 0 ok, 1 plain error, 2 *gqlerrors.Error, 3 ErrorList of two
	behave   int // 0 immediate, 1 park once, 2 park twice, 3 nested AsyncMapReduce
	nestedN  int
	nestedEr int // index of failing nested item, -1 none
}

type amrState struct {
	mu          sync.Mutex // the harness functions run on worker goroutines (truly parallel in free mode)
	s           *sched.Sim
	res         *Result
	mapCalls    map[int]int
	reduceCalls map[int]int
	reduceAct   int
	maxAct      int
	nestedRed   int
}

func init() { Registry["C20"] = scenAMR }

func scenAMR(s *sched.Sim, cfg Config, res *Result) {
	maxN := 8
	if cfg.Thorough {
		maxN = 16
	}
	// swarm: which classes are search points
	pol := sched.Policy{Deviation: []int{16, 16, 4, 1}[s.T.Choose(4)]}
	if s.T.Bool(1, 4) {
		pol.NoSearch = map[string]bool{}
		for _, c := range []string{"start", "amr.send.res", "amr.send.err", "amr.done", "map.work", "reduce.in"} {
			if s.T.Bool(1, 3) {
				pol.NoSearch[c] = true
			}
		}
	}
	if s.T.Bool(1, 4) {
		pol.Hold = map[string]bool{[]string{"amr.send.err", "amr.send.res", "start", "amr.done"}[s.T.Choose(4)]: true}
		pol.HoldNum = 14
	}
	s.Policy = pol

	n := s.T.Range(0, maxN)
	reducePark := s.T.Bool(1, 2)
	items := make([]amrItem, n)
	var desc []string
	nOK := 0
	for i := range items {
		it := amrItem{idx: i, nestedEr: -1}
		if s.T.Bool(1, 3) {
			it.fail = 1 + s.T.Choose(3)
		}
		it.behave = s.T.Choose(4)
		if it.behave == 3 {
			it.nestedN = s.T.Range(0, 3)
			if it.nestedN > 0 && s.T.Bool(1, 4) {
				it.nestedEr = s.T.Choose(it.nestedN)
			}
		}
		if it.fail == 0 && it.nestedEr < 0 {
			nOK++
		}
		items[i] = it
		desc = append(desc, fmt.Sprintf("%d:f%d/b%d/n%d/e%d", i, it.fail, it.behave, it.nestedN, it.nestedEr))
	}

	st := &amrState{s: s, res: res, mapCalls: map[int]int{}, reduceCalls: map[int]int{}}

	var returned bool
	var gotAcc []int
	var gotErrs gqlerrors.ErrorList
	var atReturnReduce, atReturnMap, atReturnActive int

	mapFn := func(it amrItem) (int, error) {
		st.mu.Lock()
		st.mapCalls[it.idx]++
		st.mu.Unlock()
		switch it.behave {
		case 1:
			s.Park("map.work")
		case 2:
			s.Park("map.work")
			s.Park("map.work")
		case 3:
			sub := make([]int, it.nestedN)
			for i := range sub {
				sub[i] = i
			}
			sum, errs := common.AsyncMapReduce(sub, 0,
				func(j int) (int, error) {
					if j == it.nestedEr {
						return 0, fmt.Errorf("nested-%d-%d", it.idx, j)
					}
					return 1, nil
				},
				func(acc int, v int) int { st.mu.Lock(); st.nestedRed++; st.mu.Unlock(); return acc + v })
			if errs != nil {
				return 0, errs
			}
			want := it.nestedN
			if sum != want {
				res.Violate("C20/nested-wrong-sum", "item %d nested sum %d want %d", it.idx, sum, want)
			}
		}
		switch it.fail {
		case 1:
			return 0, fmt.Errorf("err-%d", it.idx)
		case 2:
			return 0, &gqlerrors.Error{Message: fmt.Sprintf("err-%d", it.idx), Extensions: map[string]interface{}{"k": it.idx}}
		case 3:
			return 0, gqlerrors.ErrorList{{Message: fmt.Sprintf("err-%d", it.idx)}, {Message: fmt.Sprintf("err-%d-b", it.idx)}}
		}
		return it.idx, nil
	}
	reduceFn := func(acc []int, v int) []int {
		st.mu.Lock()
		st.reduceAct++
		if st.reduceAct > st.maxAct {
			st.maxAct = st.reduceAct
		}
		late := returned
		st.mu.Unlock()
		if late {
			res.Violate("C20/reduce-after-return", "reduce of %d entered after the call returned", v)
		}
		if reducePark {
			s.Park("reduce.in")
			st.mu.Lock()
			late = returned
			st.mu.Unlock()
			if late {
				res.Violate("C20/reduce-after-return", "reduce of %d still active after the call returned", v)
			}
		}
		st.mu.Lock()
		st.reduceCalls[v]++
		st.reduceAct--
		st.mu.Unlock()
		return append(acc, v)
	}

	s.Go("caller", func() {
		acc, errs := common.AsyncMapReduce(items, []int(nil), mapFn, reduceFn)
		st.mu.Lock()
		atReturnMap = len(st.mapCalls)
		atReturnReduce = 0
		for _, c := range st.reduceCalls {
			atReturnReduce += c
		}
		atReturnActive = st.reduceAct
		gotAcc, gotErrs = acc, errs
		returned = true
		st.mu.Unlock()
	})

	maxSteps := 4000
	isReturned := func() bool { st.mu.Lock(); defer st.mu.Unlock(); return returned }
	end := s.Run(func() bool { return isReturned() && len(s.Alive()) == 0 }, maxSteps, 5*time.Second)

	// expected
	var wantErrs []string
	var wantAcc []int
	for _, it := range items {
		if it.nestedEr >= 0 {
			wantErrs = append(wantErrs, fmt.Sprintf("nested-%d-%d", it.idx, it.nestedEr))
			continue
		}
		switch it.fail {
		case 0:
			wantAcc = append(wantAcc, it.idx)
		case 1, 2:
			wantErrs = append(wantErrs, fmt.Sprintf("err-%d", it.idx))
		case 3:
			wantErrs = append(wantErrs, fmt.Sprintf("err-%d", it.idx), fmt.Sprintf("err-%d-b", it.idx))
		}
	}
	switch end {
	case sched.Hang:
		if !returned {
			res.Violate("C20/hang", "AsyncMapReduce did not return; parked=%v alive=%v", s.ParkedLabels(), s.Alive())
		} else {
			res.Violate("C20/goroutine-leak", "goroutines still alive after return and quiescence: %v", s.Alive())
		}
	case sched.StepBudget:
		res.Anomaly = "step budget exhausted in AMR"
		res.Verdict = "anomaly"
	}
	if returned {
		res.Checks++
		for _, it := range items {
			if st.mapCalls[it.idx] != 1 {
				res.Violate("C20/map-count", "map called %d times for item %d", st.mapCalls[it.idx], it.idx)
			}
		}
		if atReturnMap != n {
			res.Violate("C20/return-before-map", "returned when %d of %d items were mapped", atReturnMap, n)
		}
		if atReturnReduce != len(wantAcc) || atReturnActive != 0 {
			res.Violate("C20/return-before-reduce", "returned when %d of %d reductions had finished (active=%d)", atReturnReduce, len(wantAcc), atReturnActive)
		}
		for _, v := range wantAcc {
			if st.reduceCalls[v] != 1 {
				res.Violate("C20/reduce-count", "reduce called %d times for result %d", st.reduceCalls[v], v)
			}
		}
		if st.maxAct > 1 {
			res.Violate("C20/reduce-concurrent", "reduce ran concurrently with itself (%d active)", st.maxAct)
		}
		ga := append([]int(nil), gotAcc...)
		sort.Ints(ga)
		if fmt.Sprint(ga) != fmt.Sprint(wantAcc) {
			res.Violate("C20/accumulator", "accumulator %v want (any order) %v", gotAcc, wantAcc)
		}
		var ge []string
		for _, e := range gotErrs {
			ge = append(ge, e.Message)
		}
		sort.Strings(ge)
		sort.Strings(wantErrs)
		if fmt.Sprint(ge) != fmt.Sprint(wantErrs) {
			res.Violate("C20/errors", "errors %v want %v", ge, wantErrs)
		}
		if (len(wantErrs) == 0) != (gotErrs == nil) {
			res.Violate("C20/errors-nil", "error list nil-ness wrong: %v", gotErrs)
		}
		var plain error = errors.New("x")
		_ = plain
	}
	if s.Forks != s.Exits && end == sched.Done {
		res.Violate("C20/goroutine-leak", "forks=%d exits=%d", s.Forks, s.Exits)
	}
	res.Nontrivial = n >= 2 && s.Steps >= 2*n
	res.Key = HashKey(strings.Join(desc, ","), fmt.Sprint(reducePark), fmt.Sprintf("%x", s.TraceHash()))
	res.SchedKey = fmt.Sprintf("%x", s.TraceHash())
	res.ProbeN("amr.errors-and-results", b2i(len(wantErrs) > 0 && len(wantAcc) > 0))
	res.ProbeN("amr.all-errors", b2i(n > 0 && len(wantAcc) == 0))
	res.ProbeN("amr.nested", st.nestedRed)
	res.ProbeN("amr.empty", b2i(n == 0))
	res.Sample = map[string]any{"n": n, "items(idx:fail/behave/nestedN/nestedErr)": desc, "reduce_parks": reducePark,
		"policy": fmt.Sprintf("%+v", pol), "returned_acc": gotAcc, "returned_errors": len(gotErrs)}
}

func b2i(b bool) int {
	if b {
		return 1
	}
	return 0
}
