package scen

import (
	"encoding/json"
	"fmt"
	"sort"
	"strings"
	"sync/atomic"
	"time"

	"github.com/vektah/gqlparser/v2/ast"

	"verif/sim/gql"
	"verif/sim/sched"
	"verif/sim/simnet"
)

// C08: a batch is answered in order and each element as if it had been sent alone.

func init() { Registry["C08"] = scenBAT }

type batEl struct {
	kind string // query mutation introspection invalid-syntax invalid-field duplicate
	req  clientReq
	op   *gql.Op
}

func introspectionOps(w *gql.World, pick func(n int) int) clientReq {
	names := append([]string{"Query"}, w.Order...)
	tn := names[pick(len(names))]
	qs := []string{
		`{ __schema { queryType { name } mutationType { name } } }`,
		`{ __schema { types { name kind } } }`,
		fmt.Sprintf(`{ __type(name: %q) { name kind fields { name type { name kind ofType { name kind } } } } }`, tn),
		`query($n: String!) { __type(name: $n) { name possibleTypes { name } enumValues { name } inputFields { name } } }`,
		`{ __schema { directives { name locations args { name } } } }`,
		// several root fields, all depending on the variables of this operation
		`query($n: String!, $d: Boolean) { a: __type(name: $n) { name kind } b: __type(name: $n) { name fields(includeDeprecated: $d) { name } } __schema { queryType { name } } c: __type(name: $n) { kind name } }`,
		`query($n: String!) { __schema { queryType { name } } t: __type(name: $n) { name kind } }`,
	}
	i := pick(len(qs))
	r := clientReq{Query: qs[i]}
	switch i {
	case 3, 6:
		r.Variables = map[string]interface{}{"n": tn}
	case 5:
		r.Variables = map[string]interface{}{"n": tn, "d": pick(2) == 0}
	}
	return r
}

// poisonFault fails sub-requests as a pure function of (service, text, variables).
func poisonFault(level int, salt string) func(m *simnet.Message) *simnet.Fault {
	poisoned := func(url string, r wireReq) bool {
		if level == 0 {
			return false
		}
		vb, _ := json.Marshal(r.Variables)
		h := HashKey(salt, url, r.Query, string(vb))
		return int(h[0])%8 < level
	}
	return func(m *simnet.Message) *simnet.Fault {
		reqs, mp, _, _, _, err := parseWire(m)
		if err != nil || mp {
			return nil
		}
		any := false
		for _, r := range reqs {
			if poisoned(m.URL, r) {
				any = true
			}
		}
		if !any {
			return nil
		}
		return &simnet.Fault{Kind: "element-errors(content-keyed)", Mutate: func(b []byte) []byte {
			var arr []map[string]interface{}
			if json.Unmarshal(b, &arr) != nil || len(arr) != len(reqs) {
				return b
			}
			for i, r := range reqs {
				if poisoned(m.URL, r) {
					vb, _ := json.Marshal(r.Variables)
					arr[i] = map[string]interface{}{"data": nil, "errors": []interface{}{map[string]interface{}{
						"message": "poisoned:" + HashKey(r.Query, string(vb)), "extensions": map[string]interface{}{"code": "POISON"}}}}
				}
			}
			nb, _ := json.Marshal(arr)
			return nb
		}}
	}
}

func resultKey(g *gwResult) (string, []string) {
	if g == nil {
		return "<nil>", nil
	}
	b, _ := json.Marshal(gql.Normalize(g.Data))
	var es []string
	for _, e := range g.Errors {
		es = append(es, errKey(e))
	}
	sort.Strings(es)
	return string(b), es
}

func scenBAT(s *sched.Sim, cfg Config, res *Result) {
	prop := "C08"
	s.Policy = drawPolicy(s)
	wf := worldFeatures(s, cfg)
	of := opFeatures(s, cfg)
	maxSvc, maxN := 3, 6
	if cfg.Thorough {
		maxSvc, maxN = 4, 8
	}
	w := gql.Generate(s.T, wf, maxSvc)
	gc := drawGwConfig(s)
	if gc.Sanitize {
		of.NodeRoot = false
	}
	env, err := newFedEnv(s, res, w, gc, prop)
	if err != nil {
		res.Verdict, res.Anomaly = "anomaly", "gateway start-up failed on a generated world: "+err.Error()
		return
	}
	twin, err := newFedEnv(s, res, w, gc, prop)
	if err != nil {
		res.Verdict, res.Anomaly = "anomaly", "twin gateway start-up failed: "+err.Error()
		return
	}
	poison := 0
	if s.T.Bool(1, 3) {
		poison = 1 + s.T.Choose(3)
	}
	salt := fmt.Sprint(s.T.Choose(1 << 20))
	// an operation-dependent queryer: the factory gets the planning context of each operation, so
	// a queryer may legitimately depend on it. Here the queryers of one drawn batch element fail
	// (connection error) - in the batch and when that element is sent alone.
	brokenEl := -1
	if s.T.Bool(1, 4) {
		brokenEl = s.T.Choose(maxN)
	}
	var brokenBatch, brokenAlone string
	withBroken := func(base func(m *simnet.Message) *simnet.Fault, tag *string) func(m *simnet.Message) *simnet.Fault {
		return func(m *simnet.Message) *simnet.Fault {
			if brokenEl >= 0 && m.Tag == *tag {
				return &simnet.Fault{Kind: "ErrBefore"}
			}
			return base(m)
		}
	}
	env.net.FaultFor = withBroken(poisonFault(poison, salt), &brokenBatch)
	twin.net.FaultFor = withBroken(poisonFault(poison, salt), &brokenAlone)

	n := s.T.Range(0, maxN)
	var els []batEl
	for i := 0; i < n; i++ {
		var el batEl
		switch c := s.T.Choose(10); {
		case c < 4 || (c == 8 && len(els) == 0):
			el.kind = "query"
			el.op = gql.GenOp(s.T, w, w.Union, ast.Query, of, 4, 16)
		case c < 6:
			if w.Union.Mutation != nil {
				el.kind = "mutation"
				el.op = gql.GenOp(s.T, w, w.Union, ast.Mutation, of, 3, 12)
			} else {
				el.kind = "query"
				el.op = gql.GenOp(s.T, w, w.Union, ast.Query, of, 4, 16)
			}
		case c == 6 || (c == 9 && len(els) > 0 && els[len(els)-1].kind == "introspection"):
			// (introspection operations tend to come in bursts: tools send several at once)
			el.kind = "introspection"
			el.req = introspectionOps(w, s.T.Choose)
		case c == 7:
			if s.T.Bool(1, 2) {
				el.kind = "invalid-syntax"
				el.req = clientReq{Query: "{ qNope { "}
			} else {
				el.kind = "invalid-field"
				el.req = clientReq{Query: "{ thisFieldDoesNotExist }"}
			}
		case c == 8:
			el.kind = "duplicate"
			src := els[s.T.Choose(len(els))]
			el.req, el.op = src.req, src.op
		default:
			// same text and variable names as an earlier element, different values
			el.kind = "query"
			el.op = gql.GenOp(s.T, w, w.Union, ast.Query, of, 3, 12)
		}
		if el.op != nil && el.kind != "duplicate" {
			el.req = clientReq{Query: el.op.Text, Variables: el.op.Vars, OperationName: el.op.OpName}
		}
		els = append(els, el)
	}
	if brokenEl >= n {
		brokenEl = -1
	}
	for j := range els {
		// attribution of a planning context to an element goes by content: no twin of the broken one
		if brokenEl >= 0 && j != brokenEl && els[j].req.Query == els[brokenEl].req.Query && derefStr(els[j].req.OperationName) == derefStr(els[brokenEl].req.OperationName) {
			brokenEl = -1
		}
	}
	brokenBatch, brokenAlone = fmt.Sprintf("batch#%d", brokenEl), fmt.Sprintf("alone%d#0", brokenEl)
	var batchResp *clientResp
	alone := make([]*clientResp, n)
	var doneA, doneB atomic.Bool
	s.Go("batch", func() {
		reqs := make([]clientReq, n)
		for i, el := range els {
			reqs[i] = el.req
		}
		batchResp = env.post("batch", reqs, true)
		doneA.Store(true)
	})
	s.Go("alone", func() {
		for i, el := range els {
			alone[i] = twin.post(fmt.Sprintf("alone%d", i), []clientReq{el.req}, false)
		}
		doneB.Store(true)
	})
	end := s.Run(func() bool { return doneA.Load() && doneB.Load() && len(s.Alive()) == 0 }, 200000, 10*time.Second)
	if end == sched.Hang {
		res.Violate(prop+"/hang", "batch=%v alone=%v parked=%v", doneA.Load(), doneB.Load(), s.ParkedLabels())
		return
	} else if end == sched.StepBudget {
		res.Verdict, res.Anomaly = "anomaly", "step budget exhausted in BAT"
		return
	}
	res.Checks++
	var kinds []string
	for _, el := range els {
		kinds = append(kinds, el.kind)
	}
	cr := batchResp
	switch {
	case cr.Panic != "":
		res.Violate(prop+"/handler-panic", "handler panicked on a batch: %s", cr.Panic)
	case cr.Status != 200:
		res.Violate(prop+"/status", "batch of %d (%v) answered with status %d: %s", n, kinds, cr.Status, clipStr(string(cr.Raw), 300))
	case cr.BadJSON != "" || cr.Batch == nil:
		res.Violate(prop+"/not-an-array", "batch answer is not a JSON array of results (%s): %s", cr.BadJSON, clipStr(string(cr.Raw), 300))
	case len(cr.Batch) != n:
		res.Violate(prop+"/length", "batch of %d answered with %d results", n, len(cr.Batch))
	default:
		mixed := false
		okEl, badEl := 0, 0
		for i := range els {
			a := alone[i]
			if a == nil || a.Single == nil {
				res.Verdict, res.Anomaly = "anomaly", fmt.Sprintf("alone twin gave no single result for element %d (%s): %s", i, els[i].kind, clipStr(string(a.Raw), 200))
				return
			}
			bd, be := resultKey(cr.Batch[i])
			ad, ae := resultKey(a.Single)
			if len(ae) > 0 {
				badEl++
			} else {
				okEl++
			}
			if bd != ad {
				res.Violate(prop+"/element-data-differs", "element %d (%s) of the batch differs from the answer it gets alone\nbatch: %s\nalone: %s\nrequest: %s vars=%v", i, els[i].kind, clipStr(bd, 400), clipStr(ad, 400), els[i].req.Query, els[i].req.Variables)
			}
			if strings.Join(be, "|") != strings.Join(ae, "|") {
				res.Violate(prop+"/element-errors-differ", "element %d (%s): errors in batch %v, alone %v\nrequest: %s", i, els[i].kind, be, ae, els[i].req.Query)
			}
			// valid fault-free elements additionally equal the reference
			if els[i].op != nil && poison == 0 && len(ae) == 0 {
				want := env.reference(els[i].op)
				if d := compareData(want, cr.Batch[i]); d != "" {
					res.Violate(prop+"/element-differs-from-reference", "element %d: %s\nrequest: %s", i, d, els[i].req.Query)
				}
			}
		}
		mixed = okEl > 0 && badEl > 0
		if mixed {
			res.Probe("bat.failing-and-succeeding-element")
		}
	}
	for _, k := range kinds {
		res.Probe("bat.element:" + k)
	}
	if n == 0 {
		res.Probe("bat.empty-batch")
	}
	if brokenEl >= 0 {
		res.Probe("bat.operation-dependent-queryer-fails")
	}
	res.ProbeN("bat.answers-overtook", env.net.Overtakes)
	for kf, v := range env.net.Fired {
		for i := 0; i < v; i++ {
			res.Fault(kf)
		}
	}
	res.Nontrivial = n >= 2 && len(env.wire) > 0
	res.Key = HashKey(w.UnionSDL, fmt.Sprint(w.Salt), fmt.Sprint(kinds), fmt.Sprint(len(env.wire)), gc.String(), fmt.Sprintf("%x", s.TraceHash()))
	res.SchedKey = fmt.Sprintf("%x", s.TraceHash())
	var qs []string
	for _, el := range els {
		qs = append(qs, el.kind+": "+clipStr(el.req.Query, 300))
	}
	res.Sample = map[string]any{"services": w.ServiceSDL, "gateway": gc.String(), "batch": qs, "poison_level": poison, "downstream_requests": len(env.wire)}
}
