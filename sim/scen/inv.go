package scen

import (
	"encoding/json"
	"fmt"
	"regexp"
	"strings"
	"time"

	"github.com/vektah/gqlparser/v2"
	"github.com/vektah/gqlparser/v2/ast"

	"verif/sim/gql"
	"verif/sim/sched"
	"verif/sim/simnet"
)

// C10: invalid operations never reach a service; service errors reach the client intact.

func init() {
	Registry["C10"] = func(s *sched.Sim, cfg Config, res *Result) {
		// one run in six looks at errors sent on subscriptions (scenario of C17, error oracle only)
		if s.T.Choose(6) == 0 {
			scenSUB(s, cfg, res)
			return
		}
		scenINV(s, cfg, res)
	}
}

var reFieldTok = regexp.MustCompile(`[{ ]([a-z][A-Za-z0-9]*)( |\(|\{|\})`)

type invMutant struct {
	kind   string
	req    clientReq
	reason string
}

// mutants derives invalid requests from a valid one, one edit each.
func mutants(op *gql.Op, w *gql.World, pick func(int) int) []invMutant {
	var out []invMutant
	txt := op.Text
	add := func(kind, q string, name *string) {
		out = append(out, invMutant{kind: kind, req: clientReq{Query: q, Variables: op.Vars, OperationName: name}})
	}
	// unknown field: rename one field token
	locs := reFieldTok.FindAllStringSubmatchIndex(txt, -1)
	if len(locs) > 0 {
		l := locs[pick(len(locs))]
		add("unknown-field", txt[:l[2]]+"zzNoSuchField"+txt[l[3]:], op.OpName)
	}
	// unknown type condition / unknown fragment / unknown directive / unknown argument, inserted after the first "{ "
	if i := strings.Index(txt, "{ "); i >= 0 {
		add("unknown-type-condition", txt[:i+2]+"... on ZzNoSuchType { id } "+txt[i+2:], op.OpName)
		add("unknown-fragment", txt[:i+2]+"...ZzNoSuchFragment "+txt[i+2:], op.OpName)
	}
	if len(locs) > 0 {
		l := locs[pick(len(locs))]
		add("unknown-directive", txt[:l[3]]+" @zzNoSuchDirective"+txt[l[3]:], op.OpName)
		l = locs[pick(len(locs))]
		if txt[l[3]] != '(' {
			add("unknown-argument", txt[:l[3]]+"(zzNoSuchArg: 1)"+txt[l[3]:], op.OpName)
		}
	}
	// undefined variable
	if len(locs) > 0 {
		l := locs[pick(len(locs))]
		if txt[l[3]] != '(' {
			add("undefined-variable-in-directive", txt[:l[3]]+" @skip(if: $zzUndefined)"+txt[l[3]:], op.OpName)
		}
	}
	// unused variable
	if strings.HasPrefix(txt, "query ") || strings.HasPrefix(txt, "mutation ") {
		if i := strings.Index(txt, "("); i > 0 && i < strings.Index(txt, "{") {
			add("unused-variable", txt[:i+1]+"$zzUnused: Int, "+txt[i+1:], op.OpName)
			// variable of the wrong type
			re := regexp.MustCompile(`\$(v[0-9]+): ([A-Za-z\[\]!]+)`)
			if m := re.FindStringSubmatchIndex(txt); m != nil {
				add("wrong-variable-type", txt[:m[4]]+"ZzNoSuchInput"+txt[m[5]:], op.OpName)
			}
		}
	}
	// wrong literal type: an Int where a selection of a composite is expected etc. - via argument literal
	if i := strings.Index(txt, ": \""); i > 0 {
		add("wrong-literal-type", txt[:i+2]+"{zz: 1}"+txt[i+2+strings.Index(txt[i+3:], "\"")+2:], op.OpName)
	}
	// fragment cycle
	root := "Query"
	if op.Kind == ast.Mutation {
		root = "Mutation"
	}
	if i := strings.Index(txt, "{ "); i >= 0 {
		add("fragment-cycle", txt[:i+2]+"...ZzA "+txt[i+2:]+"\nfragment ZzA on "+root+" { ...ZzB }\nfragment ZzB on "+root+" { ...ZzA }", op.OpName)
	}
	// two anonymous operations / several operations without operationName / unknown operationName
	add("two-anonymous-operations", "{ __typename }\n{ __typename }", nil)
	if op.Def.Name != "" {
		add("several-operations-no-name", txt+"\nquery ZzOther { __typename }", nil)
		unk := "ZzUnknownOp"
		add("unknown-operation-name", txt, &unk)
	}
	// syntax
	add("syntax-unbalanced", strings.TrimSuffix(strings.TrimSpace(txt), "}"), op.OpName)
	add("syntax-garbage", "query { ", nil)
	// selection on a scalar / missing selection on a composite
	add("missing-selection-or-scalar-selection", mutateSelection(op, w), op.OpName)
	if w.Union.Subscription != nil && len(w.Subscr) > 0 {
		f := w.Subscr[0]
		sub := ""
		if d := w.Union.Types[f.Type.Name]; d != nil && (d.Kind == ast.Object || d.Kind == ast.Interface || d.Kind == ast.Union) {
			sub = " { __typename }"
		}
		add("subscription-two-roots", "subscription { a: "+f.Name+sub+" b: "+f.Name+sub+" }", nil)
	}
	return out
}

func mutateSelection(op *gql.Op, w *gql.World) string {
	// put a selection set on the first scalar-looking field: find "name }" or "name " followed by a field
	re := regexp.MustCompile(`([a-z][A-Za-z0-9]*) \}`)
	if m := re.FindStringSubmatchIndex(op.Text); m != nil {
		return op.Text[:m[3]] + " { zz }" + op.Text[m[3]:]
	}
	return op.Text + " }"
}

func scenINV(s *sched.Sim, cfg Config, res *Result) {
	prop := "C10"
	s.Policy = drawPolicy(s)
	wf := worldFeatures(s, cfg)
	of := opFeatures(s, cfg)
	maxSvc := 3
	if cfg.Thorough {
		maxSvc = 4
	}
	w := gql.Generate(s.T, wf, maxSvc)
	gc := drawGwConfig(s)
	if s.T.Bool(1, 3) {
		// small downstream batches: a level with several lookups at one service is sent as several calls
		gc.MaxBatch = 1 + s.T.Choose(2)
	}
	if gc.Sanitize {
		of.NodeRoot = false
	}
	env, err := newFedEnv(s, res, w, gc, prop)
	if err != nil {
		res.Verdict, res.Anomaly = "anomaly", "gateway start-up failed on a generated world: "+err.Error()
		return
	}
	kind := ast.Query
	if w.Union.Mutation != nil && s.T.Bool(1, 3) {
		kind = ast.Mutation
	}
	op := gql.GenOp(s.T, w, w.Union, kind, of, 4, 14)
	sibling := gql.GenOp(s.T, w, w.Union, ast.Query, of, 3, 8)
	ms := mutants(op, w, s.T.Choose)
	// keep only mutants the validator rejects (or whose operation cannot be selected)
	var invalid []invMutant
	discarded := 0
	for _, m := range ms {
		doc, errs := gqlparser.LoadQuery(w.Union, m.req.Query)
		bad := errs != nil
		if !bad {
			var o *ast.OperationDefinition
			if m.req.OperationName != nil {
				o = doc.Operations.ForName(*m.req.OperationName)
			} else if len(doc.Operations) == 1 {
				o = doc.Operations[0]
			}
			if o == nil {
				bad = true
			}
		}
		if bad {
			invalid = append(invalid, m)
		} else {
			discarded++
		}
	}
	// second half: error pass-through
	type injected struct {
		msg  string
		ext  map[string]interface{}
		path []interface{}
	}
	var inj []injected
	var target struct {
		prefix  string
		ordinal int
		count   int
		nErr    int
		partial bool
		active  bool
		sameMsg bool
		// everyCall: from the ordinal-th call on, every call of the operation is answered with errors
		// (several calls of one level fail, e.g. the chunks of a split batch)
		everyCall bool
		hit       int
	}
	env.net.FaultFor = func(m *simnet.Message) *simnet.Fault {
		if !target.active || !strings.HasPrefix(m.Tag, target.prefix) {
			return nil
		}
		target.count++
		if target.count != target.ordinal && !(target.everyCall && target.count > target.ordinal) {
			return nil
		}
		target.hit++
		return &simnet.Fault{Kind: "service-errors", Mutate: func(b []byte) []byte {
			var arr []map[string]interface{}
			if json.Unmarshal(b, &arr) != nil || len(arr) == 0 {
				return b
			}
			// errors in one or two elements
			idxs := []int{len(arr) / 2}
			if len(arr) > 1 && target.nErr > 1 {
				idxs = append(idxs, 0)
			}
			for _, idx := range idxs {
				var es []interface{}
				for e := 0; e < target.nErr; e++ {
					msg := fmt.Sprintf("svc-error-%s-%d-%d-%d", target.prefix, target.count, idx, e)
					pth := []interface{}{"root", float64(idx), "leaf"}
					if target.sameMsg {
						// several errors that differ only in their extensions
						msg = "svc-error-same-message"
						pth = []interface{}{"root", "leaf"}
					}
					in := injected{
						msg:  msg,
						ext:  map[string]interface{}{"code": fmt.Sprintf("E%d-%d", idx, e), "nested": map[string]interface{}{"list": []interface{}{1.0, "two", map[string]interface{}{"k": true}}}},
						path: pth,
					}
					inj = append(inj, in)
					em := map[string]interface{}{"message": in.msg, "extensions": in.ext, "path": in.path}
					if e == 0 {
						em["locations"] = []interface{}{map[string]interface{}{"line": 2.0, "column": 3.0}}
					}
					es = append(es, em)
				}
				if !target.partial {
					arr[idx] = map[string]interface{}{"data": nil, "errors": es}
				} else {
					arr[idx]["errors"] = es
				}
			}
			nb, _ := json.Marshal(arr)
			return nb
		}}
	}
	done := false
	nSites := 0
	passCases := 0
	s.Go("client", func() {
		defer func() { done = true }()
		for i, m := range invalid {
			tag := fmt.Sprintf("inv%d", i)
			effBefore := len(env.effects)
			cr := env.post(tag, []clientReq{m.req}, false)
			res.Checks++
			res.Probe("inv.mutant:" + m.kind)
			n := 0
			for _, x := range env.net.Log {
				if strings.HasPrefix(x.Tag, tag+"#") || strings.HasPrefix(x.Tag, tag) {
					n++
				}
			}
			if n > 0 || len(env.effects) != effBefore {
				res.Violate(prop+"/invalid-operation-reached-a-service:"+m.kind, "an operation that does not validate caused %d downstream request(s)\nrequest: %s\noperationName: %s", n, m.req.Query, deref(m.req.OperationName))
			}
			switch {
			case cr.Panic != "":
				res.Violate(prop+"/handler-panic:"+m.kind, "handler panicked on an invalid operation: %s\nrequest: %s", cr.Panic, m.req.Query)
			case cr.Single == nil:
				res.Violate(prop+"/malformed-response:"+m.kind, "invalid operation answered with %q (%s)", clipStr(string(cr.Raw), 200), cr.BadJSON)
			default:
				if len(cr.Single.Errors) == 0 {
					res.Violate(prop+"/invalid-operation-accepted:"+m.kind, "an operation the validator rejects was answered without errors\nrequest: %s\nanswer: %s", m.req.Query, clipStr(string(cr.Raw), 300))
				}
				if cr.Single.Data != nil {
					res.Violate(prop+"/data-not-null:"+m.kind, "invalid operation answered with data %s\nrequest: %s", clipStr(string(cr.Raw), 200), m.req.Query)
				}
			}
		}
		// error pass-through at every call site
		target.active = false
		env.post("base", []clientReq{{Query: op.Text, Variables: op.Vars, OperationName: op.OpName}}, false)
		for _, m := range env.net.Log {
			if strings.HasPrefix(m.Tag, "base#") {
				nSites++
			}
		}
		sites := nSites
		if sites > 5 {
			sites = 5
		}
		for site := 1; site <= sites; site++ {
			for _, ne := range []int{1, 3} {
				for _, partial := range []bool{false, true} {
					passCases++
					tag := fmt.Sprintf("e%d", passCases)
					inj = nil
					target.prefix, target.ordinal, target.count, target.nErr, target.partial, target.active = tag+"#0", site, 0, ne, partial, true
					target.sameMsg = ne > 1 && passCases%3 == 0
					target.everyCall = !target.sameMsg && !partial && passCases%8 == 1
					if target.everyCall {
						res.Probe("inv.service-errors-in-every-call")
					}
					// one case in three: the operation is the first element of a batch, next to an
					// operation whose services answer without errors. Each must get its own errors.
					inBatch := passCases%3 == 1 && sibling != nil && sibling.Text != op.Text
					var cr *clientResp
					if inBatch {
						cr = env.post(tag, []clientReq{{Query: op.Text, Variables: op.Vars, OperationName: op.OpName}, {Query: sibling.Text, Variables: sibling.Vars, OperationName: sibling.OpName}}, true)
						if len(cr.Batch) == 2 {
							cr.Single = cr.Batch[0]
							res.Probe("inv.service-errors-inside-a-batch")
							for _, ce := range cr.Batch[1].Errors {
								if m, _ := ce["message"].(string); strings.HasPrefix(m, "svc-error-") {
									res.Violate(prop+"/service-error-at-wrong-operation", "service error %q, answered to a sub-request of batch element 0, is in the errors of element 1\nelement 0: %s\nelement 1: %s", m, op.Text, sibling.Text)
									break
								}
							}
						}
					} else {
						cr = env.post(tag, []clientReq{{Query: op.Text, Variables: op.Vars, OperationName: op.OpName}}, false)
					}
					target.active = false
					if target.hit > 1 {
						res.Probe("inv.service-errors-in-several-calls-of-one-request")
					}
					target.hit = 0
					if len(inj) == 0 {
						continue
					}
					res.Fault("service-errors")
					res.Checks++
					if cr.Single == nil {
						res.Violate(prop+"/malformed-response", "response with service errors is malformed: %s", clipStr(string(cr.Raw), 200))
						continue
					}
					usedIdx := map[int]bool{}
					for _, in := range inj {
						found := false
						for ci, ce := range cr.Single.Errors {
							if !usedIdx[ci] && ce["message"] == in.msg && gql.Diff("ext", in.ext, ce["extensions"]) == "" && gql.Diff("path", in.path, ce["path"]) == "" {
								found = true
								usedIdx[ci] = true
								break
							}
						}
						if !found {
							var why string
							for _, ce := range cr.Single.Errors {
								if ce["message"] == in.msg {
									why = fmt.Sprintf(" (message found, but extensions/path differ: %v)", ce)
								}
							}
							res.Violate(prop+"/service-error-lost", "service error %q (extensions %v, path %v) is not in the client's errors%s\nclient errors: %s\nop: %s", in.msg, in.ext, in.path, why, clipStr(fmt.Sprint(cr.Single.Errors), 500), op.Text)
							break
						}
					}
				}
			}
		}
	})
	end := s.Run(func() bool { return done && len(s.Alive()) == 0 }, 800000, 10*time.Second)
	if end == sched.Hang {
		res.Violate(prop+"/hang", "request did not finish: parked=%v", s.ParkedLabels())
	} else if end == sched.StepBudget {
		res.Verdict, res.Anomaly = "anomaly", "step budget exhausted in INV"
		return
	}
	res.ProbeN("inv.mutants-discarded-as-valid", discarded)
	res.ProbeN("inv.pass-through-cases", passCases)
	res.Nontrivial = len(invalid) >= 5 && passCases >= 2
	res.Key = HashKey(w.UnionSDL, fmt.Sprint(w.Salt), op.Text, gc.String(), fmt.Sprint(len(invalid)), fmt.Sprintf("%x", s.TraceHash()))
	res.SchedKey = fmt.Sprintf("%x", s.TraceHash())
	var mk []string
	for i, m := range invalid {
		if i < 6 {
			mk = append(mk, m.kind+": "+clipStr(m.req.Query, 160))
		}
	}
	res.Sample = map[string]any{"services": w.ServiceSDL, "gateway": gc.String(), "valid_operation": op.Text, "invalid_mutants": len(invalid), "first_mutants": mk,
		"mutants_discarded_as_valid": discarded, "call_sites": nSites, "pass_through_cases": passCases}
}
