package scen

import (
	"context"
	"fmt"
	"sort"
	"strings"
	"sync/atomic"
	"time"

	"github.com/vektah/gqlparser/v2"
	"github.com/vektah/gqlparser/v2/ast"

	"verif/sim/gql"
	"verif/sim/sched"
	"verif/sim/simnet"
)

// C06: each mutation root field reaches its owning service exactly once.

func init() {
	Registry["C06"] = func(s *sched.Sim, cfg Config, res *Result) {
		// one run in eight: mutations that carry files, with a fault on the multipart call
		if s.T.Choose(8) == 0 {
			scenUPL(s, cfg, res)
			return
		}
		scenMUT(s, cfg, res)
	}
}

// rootFieldsOf lists the root fields (name, response key) of the operation in a wire text.
func rootFieldsOf(schema *ast.Schema, text string, opName *string) (kind string, names []string) {
	doc, errs := gqlparser.LoadQuery(schema, text)
	if errs != nil || len(doc.Operations) == 0 {
		return "", nil
	}
	op := doc.Operations[0]
	if opName != nil && doc.Operations.ForName(*opName) != nil {
		op = doc.Operations.ForName(*opName)
	}
	var walk func(ss ast.SelectionSet)
	walk = func(ss ast.SelectionSet) {
		for _, sel := range ss {
			switch s := sel.(type) {
			case *ast.Field:
				names = append(names, s.Name)
			case *ast.InlineFragment:
				walk(s.SelectionSet)
			case *ast.FragmentSpread:
				if s.Definition != nil {
					walk(s.Definition.SelectionSet)
				}
			}
		}
	}
	walk(op.SelectionSet)
	return string(op.Operation), names
}

func clientRootFields(op *gql.Op) []string {
	var names []string
	var walk func(ss ast.SelectionSet)
	walk = func(ss ast.SelectionSet) {
		for _, sel := range ss {
			switch s := sel.(type) {
			case *ast.Field:
				if !strings.HasPrefix(s.Name, "__") {
					names = append(names, s.Name)
				}
			case *ast.InlineFragment:
				walk(s.SelectionSet)
			case *ast.FragmentSpread:
				if s.Definition != nil {
					walk(s.Definition.SelectionSet)
				}
			}
		}
	}
	walk(op.Def.SelectionSet)
	return names
}

func scenMUT(s *sched.Sim, cfg Config, res *Result) {
	prop := "C06"
	wf := worldFeatures(s, cfg)
	wf.Mutations = true
	wf.SharedRootName = s.T.Bool(1, 3)
	of := opFeatures(s, cfg)
	of.DupFields = false
	maxSvc := 3
	if cfg.Thorough {
		maxSvc = 4
	}
	w := gql.Generate(s.T, wf, maxSvc)
	gc := drawGwConfig(s)
	env, err := newFedEnv(s, res, w, gc, prop)
	if err != nil {
		res.Verdict, res.Anomaly = "anomaly", "gateway start-up failed on a generated world: "+err.Error()
		return
	}
	op := gql.GenOp(s.T, w, w.Union, ast.Mutation, of, 4, 14)
	other := gql.GenOp(s.T, w, w.Union, ast.Query, of, 3, 8)
	reqOf := func(o *gql.Op) clientReq {
		return clientReq{Query: o.Text, Variables: o.Vars, OperationName: o.OpName}
	}
	type tgt struct {
		prefix  string
		ordinal int
		kind    string
		count   int
		fired   bool
		url     string
		mutCall bool
		// a second fault in the same request (0: none)
		ordinal2 int
		kind2    string
		fired2   bool
		// mutation calls that never reached their service because of an injected fault
		notSent map[string]bool
		gaveUp  bool
	}
	var target *tgt
	env.net.FaultFor = func(m *simnet.Message) *simnet.Fault {
		t := target
		if t == nil || !strings.HasPrefix(m.Tag, t.prefix) {
			return nil
		}
		t.count++
		kind := ""
		switch {
		case t.count == t.ordinal:
			kind = t.kind
			t.fired = true
			t.url = m.URL
			t.mutCall = strings.Contains(string(m.Body), "mutation")
		case t.ordinal2 > 0 && t.count == t.ordinal2:
			kind = t.kind2
			t.fired2 = true
		default:
			return nil
		}
		if t.notSent == nil {
			t.notSent = map[string]bool{}
		}
		if (kind == "ErrBefore" || kind == "client-gives-up") && strings.Contains(string(m.Body), "mutation") {
			t.notSent[m.URL] = true
		}
		switch kind {
		case "client-gives-up":
			// the client disconnects: the request context ends, calls in flight or still to come fail
			t.gaveUp = true
			env.clientGivesUp(strings.SplitN(m.Tag, "#", 2)[0])
			return &simnet.Fault{Kind: "ErrBefore", Err: context.Canceled}
		case "ErrBefore", "ErrAfter":
			return &simnet.Fault{Kind: kind}
		case "Status":
			return &simnet.Fault{Kind: "Status", Status: 500, Body: []byte("oops")}
		case "not-json":
			return &simnet.Fault{Kind: "not-json", Mutate: func([]byte) []byte { return []byte("###") }}
		default:
			return &simnet.Fault{Kind: "element-errors", Mutate: func(b []byte) []byte {
				return []byte(`[{"data":null,"errors":[{"message":"refused"}]}]`)
			}}
		}
	}
	want := clientRootFields(op)
	checked := 0
	// check looks at everything delivered for one client mutation (tag prefix)
	check := func(prefix string, t *tgt, mode string) {
		res.Checks++
		checked++
		perSvcMut := map[int][][]string{}
		for _, wr := range env.wire {
			if !strings.HasPrefix(wr.Tag, prefix) {
				continue
			}
			kind, roots := rootFieldsOf(w.Services[wr.Svc], wr.Text, wr.OpName)
			if kind == "" {
				res.Violate(prop+"/unparseable-subrequest", "service %d got an invalid request for a mutation: %s", wr.Svc, wr.Text)
				continue
			}
			isRootStep := !strings.Contains(wr.Text, "node(id: $id)")
			if kind == "mutation" {
				perSvcMut[wr.Svc] = append(perSvcMut[wr.Svc], roots)
				if !isRootStep {
					res.Violate(prop+"/follow-up-sent-as-mutation", "a follow-up lookup was sent to service %d as a mutation: %s", wr.Svc, wr.Text)
				}
			} else if isRootStep {
				// a root step of a mutation that is not a mutation
				for _, r := range roots {
					if w.Owner("Mutation", r) >= 0 && w.Owner("Query", r) < 0 {
						res.Violate(prop+"/root-sent-as-query", "mutation root field %s was sent to service %d as %s", r, wr.Svc, kind)
					}
				}
			}
		}
		// per owner: exactly one mutation request carrying its root fields in client order
		byOwner := map[int][]string{}
		for _, f := range want {
			o := w.Owner("Mutation", f)
			byOwner[o] = append(byOwner[o], f)
		}
		for svc := 0; svc < w.K; svc++ {
			exp := byOwner[svc]
			got := perSvcMut[svc]
			// the mutation call to this owner was stopped by an injected fault before it got there,
			// or the client went away before it was made
			faultOnPath := t != nil && (t.notSent[w.URLs[svc]] || t.gaveUp)
			switch {
			case len(exp) == 0 && len(got) > 0:
				res.Violate(prop+"/mutation-at-wrong-service", "service %d owns none of the selected root fields but received mutation request(s) %v\nop: %s", svc, got, op.Text)
			case len(exp) > 0 && len(got) > 1:
				res.Violate(prop+"/mutation-duplicated", "service %d received %d mutation requests for one client mutation (%s): %v\nop: %s\nfault: %+v", svc, len(got), mode, got, op.Text, t)
			case len(exp) > 0 && len(got) == 0 && !faultOnPath:
				res.Violate(prop+"/mutation-not-delivered", "service %d owns %v but received no mutation request (%s)\nop: %s\nfault: %+v", svc, exp, mode, op.Text, t)
			case len(exp) > 0 && len(got) == 1:
				if fmt.Sprint(got[0]) != fmt.Sprint(exp) {
					res.Violate(prop+"/root-fields-differ", "service %d owns root fields %v (client order) but its mutation request carries %v\nop: %s", svc, exp, got[0], op.Text)
				}
			}
		}
	}
	done := false
	nSites := 0
	cases := 0
	s.Policy = drawPolicy(s)
	s.Go("client", func() {
		defer func() { done = true }()
		// 1. alone, fault-free
		env.post("m0", []clientReq{reqOf(op)}, false)
		check("m0#", nil, "alone")
		for _, m := range env.net.Log {
			if strings.HasPrefix(m.Tag, "m0#") {
				nSites++
			}
		}
		// 2. repeated (plan cache) and in a batch with another operation and with itself
		env.post("m1", []clientReq{reqOf(op)}, false)
		check("m1#", nil, "repeated")
		env.post("m2", []clientReq{reqOf(other), reqOf(op)}, true)
		check("m2#1", nil, "batch")
		if other.Kind == ast.Query {
			res.Probe("mut.batched-with-query")
		}
		// 2b. two clients at once: the mutation next to another operation (another mutation where
		// the world has one), each must reach its owners exactly once
		{
			var n atomic.Int32
			rival := gql.GenOp(s.T, w, w.Union, ast.Mutation, of, 3, 8)
			s.Go("rival", func() {
				env.post("mr", []clientReq{reqOf(rival)}, false)
				n.Add(1)
			})
			s.Go("mine", func() {
				env.post("m3", []clientReq{reqOf(op)}, false)
				n.Add(1)
			})
			for n.Load() < 2 {
				s.Park("wait-overlap")
			}
			check("m3#", nil, "next to another client's mutation")
			res.Probe("mut.two-clients-at-once")
		}
		// 3. single faults at every call site
		sites := nSites
		if sites > 5 {
			sites = 5
		}
		for site := 1; site <= sites; site++ {
			for _, k := range []string{"ErrBefore", "ErrAfter", "Status", "not-json", "element-errors"} {
				cases++
				tag := fmt.Sprintf("f%d", cases)
				target = &tgt{prefix: tag + "#", ordinal: site, kind: k}
				env.post(tag, []clientReq{reqOf(op)}, false)
				t := target
				target = nil
				if t.fired {
					res.Fault(k)
					if t.mutCall {
						res.Probe("mut.fault-on-mutation-call")
					} else {
						res.Probe("mut.fault-on-follow-up-call")
					}
				}
				check(tag+"#", t, "fault "+k)
			}
		}
		// 4. the client goes away during call k; and pairs of faults in one request
		all := []string{"ErrBefore", "ErrAfter", "Status", "not-json", "element-errors", "client-gives-up"}
		for i := 0; i < 4 && sites > 0; i++ {
			cases++
			tag := fmt.Sprintf("g%d", cases)
			t := &tgt{prefix: tag + "#", ordinal: 1 + s.Draw(sites), kind: "client-gives-up"}
			if i >= 2 {
				t.kind = all[s.Draw(len(all))]
				t.ordinal2, t.kind2 = 1+s.Draw(sites), all[s.Draw(len(all))]
				if t.ordinal2 == t.ordinal {
					t.ordinal2 = 0
				}
			}
			target = t
			env.post(tag, []clientReq{reqOf(op)}, false)
			target = nil
			if t.fired {
				res.Fault(t.kind)
			}
			if t.fired2 {
				res.Fault(t.kind2)
				res.Probe("mut.two-faults-in-one-request")
			}
			check(tag+"#", t, fmt.Sprintf("fault %s at call %d, %s at call %d", t.kind, t.ordinal, t.kind2, t.ordinal2))
		}
	})
	end := s.Run(func() bool { return done && len(s.Alive()) == 0 }, 800000, 10*time.Second)
	if end == sched.Hang {
		res.Violate(prop+"/hang", "mutation request did not finish: parked=%v", s.ParkedLabels())
	} else if end == sched.StepBudget {
		res.Verdict, res.Anomaly = "anomaly", "step budget exhausted in MUT"
		return
	}
	owners := map[int]bool{}
	for _, f := range want {
		owners[w.Owner("Mutation", f)] = true
	}
	followUp := false
	for _, wr := range env.wire {
		if strings.HasPrefix(wr.Tag, "m0#") && strings.Contains(wr.Text, "node(id: $id)") {
			followUp = true
		}
	}
	res.ProbeN("mut.root-fields", len(want))
	res.ProbeN("mut.two-owners", b2i(len(owners) > 1))
	res.ProbeN("mut.follow-up-lookups", b2i(followUp))
	res.Nontrivial = len(want) >= 1 && checked >= 3 && (followUp || len(owners) > 1 || len(want) > 1)
	ws := append([]string{}, want...)
	sort.Strings(ws)
	res.Key = HashKey(w.UnionSDL, fmt.Sprint(w.Salt), op.Text, fmt.Sprint(op.Vars), gc.String(), fmt.Sprintf("%x", s.TraceHash()))
	res.SchedKey = fmt.Sprintf("%x", s.TraceHash())
	res.Sample = map[string]any{"services": w.ServiceSDL, "gateway": gc.String(), "mutation": op.Text, "variables": op.Vars, "root_fields": want,
		"call_sites": nSites, "fault_cases": cases}
}
