package scen

import (
	"github.com/vektah/gqlparser/v2"
	"github.com/vektah/gqlparser/v2/ast"
)

func loadSDL(sdl string) (*ast.Schema, error) {
	s, err := gqlparser.LoadSchema(&ast.Source{Name: "svc", Input: sdl})
	if err != nil {
		return nil, err
	}
	return s, nil
}
