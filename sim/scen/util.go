package scen

import (
	"github.com/vektah/gqlparser/v2"
	"github.com/vektah/gqlparser/v2/ast"
)

func loadSDL(sdl string) (*ast.Schema, error) {
	s, err := gqlparser.LoadSchema(&ast.Source{Name: "svc", Input: sdl})
	if err != nil {
		return nil, err
	}
	return s, nil
}

func derefStr(p *string) string {
	if p == nil {
		return ""
	}
	return *p
}

func deepCopyJSON(v interface{}) interface{} {
	switch x := v.(type) {
	case map[string]interface{}:
		m := make(map[string]interface{}, len(x))
		for k, c := range x {
			m[k] = deepCopyJSON(c)
		}
		return m
	case []interface{}:
		l := make([]interface{}, len(x))
		for i, c := range x {
			l[i] = deepCopyJSON(c)
		}
		return l
	}
	return v
}

// jsonSize counts the values (objects, list entries, leaves) of a decoded JSON-like value.
func jsonSize(v interface{}) int {
	switch x := v.(type) {
	case map[string]interface{}:
		n := 1
		for _, c := range x {
			n += jsonSize(c)
		}
		return n
	case []interface{}:
		n := 1
		for _, c := range x {
			n += jsonSize(c)
		}
		return n
	case []map[string]interface{}:
		n := 1
		for _, c := range x {
			n += jsonSize(c)
		}
		return n
	}
	return 1
}
