package scen

import (
	"context"
	"encoding/json"
	"fmt"
	"io"
	"net"
	"strings"
	"sync"
	"time"

	"github.com/gobwas/ws"
	"github.com/gobwas/ws/wsutil"

	"verif/sim/gql"
	"verif/sim/simnet"
)

// ---- upstream graphql-ws service node ----

type upEvent struct {
	kind string // event error complete close bad-json unknown-type connection-error
}

type upScript struct {
	ack    string // ack never-ack close-in-handshake refuse-dial
	events []upEvent
}

type upstreamConn struct {
	svc       int
	n         int
	conn      *simnet.Conn // node side
	started   bool
	query     string
	vars      map[string]interface{}
	opName    *string
	emitted   []int // event sequence numbers emitted as data
	errsSent  []string
	nEvents   int // events emitted on this connection so far
	done      bool
	sawEOF    bool
	script    *upScript
	preScript *upScript // known at dial time (from the start message being processed)
	log       []string
}

type subEnv struct {
	*fedEnv
	smu        sync.Mutex // guards ups, srvConns, dial bookkeeping (handlers of several connections run in parallel in free mode)
	ups        []*upstreamConn
	scripts    func(svc int, query string) *upScript
	dialCount  int
	dialing    int
	refused    int
	firedMu    sync.Mutex
	fired      map[string]int
	dialScript *upScript
	// per handler goroutine ("server-<client>"): scripts of the starts sent and not yet dialled
	pendingStarts map[string][]*upScript
	eventSeq      int
	sameEvents    bool // every upstream emits the same event again and again (determinism runs)
	refuse        func(svc int) bool
	// every client-side connection end, for leak checks
	srvConns []*simnet.Conn
}

func newSubEnv(f *fedEnv) *subEnv {
	se := &subEnv{fedEnv: f, pendingStarts: map[string][]*upScript{}, fired: map[string]int{}}
	f.s.DialFn = se.dial
	return se
}

func (se *subEnv) svcOfAddr(addr string) int {
	for i, u := range se.w.URLs {
		host := strings.TrimPrefix(u, "http://")
		host = strings.Split(host, "/")[0]
		if strings.HasPrefix(addr, host) {
			return i
		}
	}
	return -1
}

// dial is what the gateway's ws.Dialer calls (hook H3).
func (se *subEnv) dial(ctx context.Context, network, addr string) (net.Conn, error) {
	svc := se.svcOfAddr(addr)
	who := se.s.CurrentID()
	se.smu.Lock()
	defer se.smu.Unlock()
	se.dialCount++
	n := se.dialCount
	// the dial happens on the handler goroutine of a client connection, while it processes the
	// oldest start message of that connection which has not dialled yet
	var sc *upScript
	if q := se.pendingStarts[who]; len(q) > 0 {
		sc = q[0]
		se.pendingStarts[who] = q[1:]
	}
	se.dialScript = sc
	if svc < 0 || (sc != nil && sc.ack == "refuse-dial") {
		se.refused++
		se.fire("upstream.dial-refused")
		return nil, fmt.Errorf("simnet: dial %s: connection refused", addr)
	}
	gwEnd, nodeEnd := simnet.Pipe(se.s, fmt.Sprintf("up%d-svc%d", n, svc))
	uc := &upstreamConn{svc: svc, n: n, conn: nodeEnd, preScript: se.dialScript}
	se.ups = append(se.ups, uc)
	se.s.Go(fmt.Sprintf("upstream%d", n), func() { se.runUpstream(uc) })
	return gwEnd, nil
}

func wsMsg(typ, id string, payload interface{}) []byte {
	m := map[string]interface{}{"type": typ}
	if id != "" {
		m["id"] = id
	}
	if payload != nil {
		m["payload"] = payload
	}
	b, _ := json.Marshal(m)
	return b
}

func (se *subEnv) runUpstream(uc *upstreamConn) {
	conn := uc.conn
	defer func() {
		uc.done = true
		conn.Close()
	}()
	up := ws.Upgrader{Protocol: func([]byte) bool { return true }}
	if _, err := up.Upgrade(conn); err != nil {
		uc.log = append(uc.log, "handshake failed: "+err.Error())
		return
	}
	resetEarly := false
	if sc := se.nextScript(uc); sc != nil && sc.ack == "reset-after-upgrade" {
		uc.script = sc
		resetEarly = true
	}
	// read init and start
	for !uc.started {
		msg, err := wsutil.ReadClientText(conn)
		if err != nil {
			uc.sawEOF = true
			return
		}
		var m struct {
			Type    string `json:"type"`
			ID      string `json:"id"`
			Payload *struct {
				Query         string                 `json:"query"`
				Variables     map[string]interface{} `json:"variables"`
				OperationName *string                `json:"operationName"`
			} `json:"payload"`
		}
		json.Unmarshal(msg, &m)
		switch m.Type {
		case "connection_init":
			if resetEarly {
				// the connection breaks between the gateway's init and start messages
				se.fire("upstream.reset-during-handshake")
				conn.Reset()
				return
			}
		case "start":
			if m.Payload != nil {
				uc.query, uc.vars, uc.opName = m.Payload.Query, m.Payload.Variables, m.Payload.OperationName
			}
			uc.started = true
		}
	}
	uc.script = se.scripts(uc.svc, uc.query)
	if uc.script.ack == "close-in-handshake" {
		// the service goes away right after the handshake messages
		se.fire("upstream.close-in-handshake")
		return
	}
	if uc.script.ack == "never-ack" {
		se.fire("upstream.never-ack")
	}
	// record the sub-request on the wire log (C02-style validity)
	ex := se.execs[uc.svc]
	wr := &wireRec{Tag: fmt.Sprintf("sub-up%d", uc.n), Svc: uc.svc, Text: uc.query, Vars: uc.vars, OpName: uc.opName, Kind: "subscription"}
	if _, _, errs := ex.Run(uc.query, uc.opName, uc.vars); errs != nil {
		wr.Problem = errs.Error()
	} else {
		wr.Valid = true
	}
	se.wire = append(se.wire, wr)
	if uc.script.ack == "ack" {
		se.s.Park("up.write")
		if err := wsutil.WriteServerText(conn, wsMsg("connection_ack", "", nil)); err != nil {
			return
		}
	}
	// a reader that notices when the gateway goes away
	gone := make(chan struct{})
	se.s.Go(fmt.Sprintf("upstream%d-reader", uc.n), func() {
		defer close(gone)
		for {
			if _, err := wsutil.ReadClientText(conn); err != nil {
				uc.sawEOF = true
				return
			}
		}
	})
	for _, ev := range uc.script.events {
		se.s.Park("up.emit")
		if conn.PeerGone() || conn.IsClosed() {
			break
		}
		var err error
		switch ev.kind {
		case "event":
			// events are numbered per upstream connection: two connections that serve the same
			// subscription text emit the same payloads (which of them belongs to which client
			// subscription then does not matter to the oracle)
			se.eventSeq++
			uc.nEvents++
			seq := uc.nEvents
			if se.sameEvents {
				seq = 1
			}
			ex.EventSeq = seq
			resp, _, errs := ex.Run(uc.query, uc.opName, uc.vars)
			if errs != nil {
				err = wsutil.WriteServerText(conn, wsMsg("error", "1", []interface{}{map[string]interface{}{"message": "invalid subscription: " + errs.Error()}}))
				break
			}
			uc.emitted = append(uc.emitted, seq)
			err = wsutil.WriteServerText(conn, wsMsg("data", "1", map[string]interface{}{"data": resp.Data}))
		case "event-with-errors":
			// partial data together with errors in one data frame
			se.fire("upstream.event-with-errors")
			se.eventSeq++
			uc.nEvents++
			ex.EventSeq = uc.nEvents
			resp, _, errs := ex.Run(uc.query, uc.opName, uc.vars)
			if errs != nil {
				err = wsutil.WriteServerText(conn, wsMsg("error", "1", []interface{}{map[string]interface{}{"message": "invalid subscription: " + errs.Error()}}))
				break
			}
			msg := fmt.Sprintf("upstream-partial-%d", len(uc.errsSent))
			uc.errsSent = append(uc.errsSent, msg)
			err = wsutil.WriteServerText(conn, wsMsg("data", "1", map[string]interface{}{"data": resp.Data, "errors": []interface{}{
				map[string]interface{}{"message": msg, "path": []interface{}{"zzRoot", 0, "zz"}, "extensions": map[string]interface{}{"code": "PARTIAL"}}}}))
		case "error":
			se.fire("upstream.error-frame")
			msg := fmt.Sprintf("upstream-error-%d", len(uc.errsSent))
			uc.errsSent = append(uc.errsSent, msg)
			err = wsutil.WriteServerText(conn, wsMsg("error", "1", []interface{}{map[string]interface{}{"message": msg, "extensions": map[string]interface{}{"code": "UP"}}}))
		case "complete":
			err = wsutil.WriteServerText(conn, wsMsg("complete", "1", nil))
		case "connection-error":
			se.fire("upstream.connection-error")
			err = wsutil.WriteServerText(conn, wsMsg("connection_error", "", map[string]interface{}{"message": "nope"}))
		case "unknown-type":
			se.fire("upstream.unknown-type")
			err = wsutil.WriteServerText(conn, wsMsg("zz_unknown", "1", nil))
		case "bad-json":
			se.fire("upstream.not-json")
			err = wsutil.WriteServerText(conn, []byte("{not json"))
		case "ka":
			err = wsutil.WriteServerText(conn, wsMsg("ka", "", nil))
		case "close":
			se.fire("upstream.disconnect")
			conn.Close()
			<-gone
			return
		}
		if err != nil {
			break
		}
	}
	// stay until the gateway closes the connection
	<-gone
}

// closeAll resets every simulated connection so that harness goroutines can end.
func (se *subEnv) closeAll() {
	for _, u := range se.ups {
		u.conn.Reset()
	}
	for _, c := range se.srvConns {
		c.Reset()
	}
}

// ---- websocket client of the gateway ----

type wsFrame struct {
	Type    string          `json:"type"`
	ID      string          `json:"id"`
	Payload json.RawMessage `json:"payload"`
}

type wsClient struct {
	mu              sync.Mutex // reader goroutine vs client goroutine
	name            string
	se              *subEnv
	conn            *simnet.Conn // client side
	srv             *simnet.Conn // gateway side
	frames          []wsFrame
	raw             int
	parseErr        string
	closed          bool // saw a close frame or EOF
	closeFrm        bool
	handlerReturned bool
	handlerPanic    string
	dialErr         string
	readerDone      bool
}

// connect dials the gateway: upgrade handshake over a simulated connection served by the
// simulated net/http loop. Must run on a registered goroutine.
func (se *subEnv) connect(name string) *wsClient {
	c := &wsClient{name: name, se: se}
	cl, srv := simnet.Pipe(se.s, "cl-"+name)
	c.conn, c.srv = cl, srv
	se.smu.Lock()
	se.srvConns = append(se.srvConns, srv)
	se.smu.Unlock()
	se.s.Go("server-"+name, func() {
		p, _ := simnet.ServeConn(srv, se.gw.Handler)
		c.handlerPanic = p
		c.handlerReturned = true
	})
	d := ws.Dialer{
		Protocols: []string{"graphql-ws"},
		NetDial:   func(ctx context.Context, network, addr string) (net.Conn, error) { return cl, nil },
	}
	_, _, _, err := d.Dial(context.Background(), "ws://gateway/graphql")
	if err != nil {
		c.dialErr = err.Error()
		return c
	}
	se.s.Go("reader-"+name, func() { c.readLoop() })
	return c
}

// readLoop parses every byte the client receives into frames.
func (c *wsClient) readLoop() {
	defer func() { c.mu.Lock(); c.readerDone = true; c.mu.Unlock() }()
	for {
		h, err := ws.ReadHeader(c.conn)
		if err != nil {
			c.mu.Lock()
			if err != io.EOF && !strings.Contains(err.Error(), "reset") && !strings.Contains(err.Error(), "closed") {
				c.parseErr = "torn frame header: " + err.Error()
			}
			c.closed = true
			c.mu.Unlock()
			return
		}
		if h.Masked || h.Length > 1<<22 || h.Rsv != 0 {
			c.setParseErr(fmt.Sprintf("implausible frame header from a server: %+v", h))
			return
		}
		payload := make([]byte, h.Length)
		if _, err := io.ReadFull(c.conn, payload); err != nil {
			// the client's own close / reset is not the gateway's doing; a stream that ends inside a
			// frame because the gateway closed is a torn frame
			c.mu.Lock()
			if !strings.Contains(err.Error(), "reset") && !strings.Contains(err.Error(), "closed network") {
				c.parseErr = fmt.Sprintf("torn frame: %d payload bytes announced, stream ended: %v", h.Length, err)
			}
			c.closed = true
			c.mu.Unlock()
			return
		}
		switch h.OpCode {
		case ws.OpClose:
			c.mu.Lock()
			c.closeFrm = true
			c.closed = true
			c.mu.Unlock()
			continue
		case ws.OpText:
			var f wsFrame
			if err := json.Unmarshal(payload, &f); err != nil || f.Type == "" {
				c.setParseErr(fmt.Sprintf("text frame is not a protocol message: %q", clipStr(string(payload), 200)))
				return
			}
			switch f.Type {
			case "connection_ack", "ka", "data", "error", "complete", "connection_error":
			default:
				c.setParseErr(fmt.Sprintf("unknown message type %q", f.Type))
				return
			}
			c.mu.Lock()
			c.frames = append(c.frames, f)
			c.mu.Unlock()
		case ws.OpPing, ws.OpPong:
		default:
			c.setParseErr(fmt.Sprintf("unexpected opcode %d", h.OpCode))
			return
		}
		if !h.Fin {
			c.setParseErr("fragmented frame from the gateway")
			return
		}
	}
}

func (c *wsClient) send(typ, id string, payload interface{}) error {
	return wsutil.WriteClientText(c.conn, wsMsg(typ, id, payload))
}

func (c *wsClient) sendRaw(b []byte) error { return wsutil.WriteClientText(c.conn, b) }

func (c *wsClient) setParseErr(msg string) {
	c.mu.Lock()
	c.parseErr = msg
	c.mu.Unlock()
}

func (c *wsClient) isClosed() bool {
	c.mu.Lock()
	defer c.mu.Unlock()
	return c.closed
}

func (c *wsClient) isReaderDone() bool {
	c.mu.Lock()
	defer c.mu.Unlock()
	return c.readerDone
}

func (c *wsClient) dataFrames(id string) []wsFrame {
	c.mu.Lock()
	defer c.mu.Unlock()
	var out []wsFrame
	for _, f := range c.frames {
		if f.Type == "data" && f.ID == id {
			out = append(out, f)
		}
	}
	return out
}

// waitFrames parks until n data frames for id arrived or the simulated timeout expires.
func (c *wsClient) waitFrames(id string, n int, timeout time.Duration) bool {
	deadline := time.Now().Add(timeout)
	for len(c.dataFrames(id)) < n {
		if time.Now().After(deadline) || c.isReaderDone() {
			return false
		}
		time.Sleep(50 * time.Millisecond)
	}
	return true
}

// refEvent is what a single server would send for event seq of the client's subscription.
func (se *subEnv) refEvent(op *gql.Op, seq int) map[string]interface{} {
	se.ref.EventSeq = seq
	resp, _, errs := se.ref.Run(op.Text, op.OpName, op.Vars)
	if errs != nil {
		panic(HarnessPanic("reference rejects generated subscription: " + errs.Error()))
	}
	return resp.Data
}

// handshaking counts upstream connections whose dial / init / start exchange is still in flight.
func (se *subEnv) handshaking() int {
	se.smu.Lock()
	defer se.smu.Unlock()
	n := 0
	for _, u := range se.ups {
		if !u.started && !u.done {
			n++
		}
	}
	return n + se.dialing
}

func (se *subEnv) nextScript(uc *upstreamConn) *upScript { return uc.preScript }

// fire counts a fault that actually happened (not merely was scripted).
func (se *subEnv) fire(kind string) {
	se.firedMu.Lock()
	se.fired[kind]++
	se.firedMu.Unlock()
}
