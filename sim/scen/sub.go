package scen

import (
	"encoding/json"
	"fmt"
	"sort"
	"strings"
	"sync/atomic"
	"time"

	"github.com/vektah/gqlparser/v2/ast"

	"verif/sim/gql"
	"verif/sim/sched"
)

// C17: subscription events are delivered once, in order, fully stitched.

func init() { Registry["C17"] = scenSUB }

type subSpec struct {
	conn   int
	id     string
	alias  string
	op     *gql.Op
	script *upScript
	twinOf *subSpec
	nth    int // how many earlier subscriptions of the connection share the alias
}

// addTick registers a driver action that lets simulated time pass (heartbeats fire) while other
// actions are enabled. It does nothing while ok() is false (e.g. an upstream handshake with its
// one second dial timeout is in flight: a clock jump there would be a slow-network fault).
func addTick(s *sched.Sim, n int, d time.Duration, ok func() bool) {
	if n <= 0 {
		return
	}
	s.AddAction(&sched.Action{ID: "clock.tick", Class: "clock.tick", Fire: func() {
		if ok == nil || ok() {
			time.Sleep(d)
			addTick(s, n-1, d, ok)
		} else {
			addTick(s, n, d, ok)
		}
	}})
}

func subPolicy(s *sched.Sim) sched.Policy {
	pol := sched.Policy{Deviation: []int{16, 16, 8, 3}[s.T.Choose(4)]}
	pol.Hold = map[string]bool{"clock.tick": true}
	pol.HoldNum = 15
	switch s.T.Choose(4) {
	case 0:
		pol.NoSearch = map[string]bool{"start": true, "amr.send.res": true, "amr.send.err": true, "amr.done": true, "enter": true}
	case 1:
		pol.Prefer = map[string]bool{"up.emit": true}
		pol.PreferNum = 10
	case 2:
		pol.Prefer = map[string]bool{"conn.write": true}
		pol.PreferNum = 8
	}
	return pol
}

func scenSUB(s *sched.Sim, cfg Config, res *Result) {
	prop := "C17"
	if cfg.Prop == "C10" {
		// C10 runs this scenario for one thing only: errors an owning service sends on a
		// subscription reach the client with message, extensions and path
		prop = "C10"
		defer func() {
			kept := res.Violations[:0]
			for _, v := range res.Violations {
				if strings.HasPrefix(v.Signature, "C10/upstream-error") || strings.HasPrefix(v.Signature, "C10/hang") {
					kept = append(kept, v)
				}
			}
			res.Violations = kept
			if len(kept) == 0 && res.Verdict == "violation" {
				res.Verdict = "ok"
			}
		}()
	}
	s.Policy = subPolicy(s)
	wf := worldFeatures(s, cfg)
	wf.Subscriptions = true
	of := opFeatures(s, cfg)
	of.MultiOp = false
	// C18 runs this scenario for one check: a subscription that has ended upstream is torn down while
	// its connection lives on
	endMode := cfg.Prop == "C18"
	var allSeen atomic.Int32
	var checked atomic.Bool
	if endMode {
		prop = "C18"
		defer func() {
			kept := res.Violations[:0]
			for _, v := range res.Violations {
				if strings.HasPrefix(v.Signature, "C18/listener-outlives") || strings.HasPrefix(v.Signature, "C18/hang") {
					kept = append(kept, v)
				}
			}
			res.Violations = kept
			if len(kept) == 0 && res.Verdict == "violation" {
				res.Verdict = "ok"
			}
		}()
	}
	detMode := cfg.Prop == "C13"
	if detMode {
		// C13 runs this scenario with upstreams that emit one and the same event repeatedly and
		// asks one thing: every delivery of it is the same payload. Determinism is demanded of
		// every operation, so the selection shapes of the open findings are drawn too.
		prop = "C13"
		wf.Unions = s.T.Bool(1, 2)
		for _, p := range []*bool{&of.AbstractFrags, &of.AbstractNested, &of.AbstractCondFrag, &of.AbstractFragMeta,
			&of.IDWithFragments, &of.IDDirective, &of.FragDirectives, &of.VarNamedID} {
			*p = s.T.Bool(1, 2)
		}
		defer func() {
			kept := res.Violations[:0]
			for _, v := range res.Violations {
				if strings.HasPrefix(v.Signature, "C13/event-payloads-differ") || strings.HasPrefix(v.Signature, "C13/hang") {
					kept = append(kept, v)
				}
			}
			res.Violations = kept
			if len(kept) == 0 && res.Verdict == "violation" {
				res.Verdict = "ok"
			}
		}()
	}
	maxSvc, maxEvents := 3, 5
	if cfg.Thorough {
		maxSvc, maxEvents = 4, 12
	}
	w := gql.Generate(s.T, wf, maxSvc)
	gc := drawGwConfig(s)
	fe, err := newFedEnv(s, res, w, gc, prop)
	if err != nil {
		res.Verdict, res.Anomaly = "anomaly", "gateway start-up failed on a generated world: "+err.Error()
		return
	}
	env := newSubEnv(fe)
	env.sameEvents = detMode
	nConn := 1 + s.T.Choose(2)
	var specs []*subSpec
	byAlias := map[string]*subSpec{}
	for c := 0; c < nConn; c++ {
		k := 1 + s.T.Choose(3)
		for j := 0; j < k; j++ {
			sp := &subSpec{conn: c, id: fmt.Sprintf("s%d", j+1), alias: fmt.Sprintf("ev_c%d_s%d", c, j+1)}
			sp.op = gql.GenOpAliased(s.T, w, w.Union, ast.Subscription, of, 4, 12, sp.alias)
			if c > 0 && j == 0 && gc.CacheTTL != "" && len(specs) > 0 && s.T.Bool(1, 2) {
				// the same subscription text as the first one of connection 0, started from another
				// connection at about the same time: both handlers get the same cached plan object
				prev := specs[0]
				sp.alias, sp.op = prev.alias, prev.op
				sp.twinOf = prev
				res.Probe("sub.identical-subscription-on-two-connections")
			} else if j > 0 && gc.CacheTTL != "" && s.T.Bool(1, 2) {
				// an identical subscription (same text) on the same connection: with the caching
				// planner both entries get the same plan object
				prev := specs[len(specs)-1]
				sp.alias, sp.op = prev.alias, prev.op
				sp.twinOf = prev
				res.Probe("sub.identical-subscription-same-plan")
			}
			n := s.T.Range(0, maxEvents)
			sc := &upScript{ack: "ack"}
			for e := 0; e < n; e++ {
				if s.T.Bool(1, 8) {
					sc.events = append(sc.events, upEvent{"error"})
				} else if s.T.Bool(1, 10) {
					sc.events = append(sc.events, upEvent{"event-with-errors"})
				} else if s.T.Bool(1, 10) {
					sc.events = append(sc.events, upEvent{"ka"})
				} else {
					sc.events = append(sc.events, upEvent{"event"})
				}
			}
			if s.T.Bool(2, 3) {
				sc.events = append(sc.events, upEvent{"complete"})
			}
			sp.script = sc
			if sp.twinOf != nil {
				sp.script = sp.twinOf.script
				for _, o := range specs {
					if o.alias == sp.alias {
						sp.nth++
					}
				}
			}
			specs = append(specs, sp)
			if sp.twinOf == nil {
				byAlias[sp.alias] = sp
			}
		}
	}
	env.scripts = func(svc int, query string) *upScript {
		for _, a := range sortedKeys(byAlias) {
			if strings.Contains(query, a+":") {
				return byAlias[a].script
			}
		}
		return &upScript{ack: "ack"}
	}
	{
		var d []string
		for _, sp := range specs {
			var evs []string
			for _, e := range sp.script.events {
				evs = append(evs, e.kind)
			}
			d = append(d, fmt.Sprintf("conn %d id %s: %s vars=%v upstream script=%v", sp.conn, sp.id, sp.op.Text, sp.op.Vars, evs))
		}
		s.Describe(map[string]any{"services": w.ServiceSDL, "gateway": gc.String(), "subscriptions": d})
	}
	clients := make([]*wsClient, nConn)
	var finished atomic.Int32
	// drawn here, on the driver goroutine: client goroutines can be woken concurrently by timers
	// and must not touch the tape
	stopFirst := make([]bool, nConn)
	for c := range stopFirst {
		stopFirst[c] = s.T.Bool(1, 2)
	}
	for c := 0; c < nConn; c++ {
		c := c
		s.Go(fmt.Sprintf("wsclient%d", c), func() {
			defer func() { finished.Add(1) }()
			cl := env.connect(fmt.Sprintf("c%d", c))
			clients[c] = cl
			if cl.dialErr != "" {
				return
			}
			cl.send("connection_init", "", nil)
			var mine []*subSpec
			for _, sp := range specs {
				if sp.conn == c {
					mine = append(mine, sp)
				}
			}
			for _, sp := range mine {
				cl.send("start", sp.id, map[string]interface{}{"query": sp.op.Text, "variables": sp.op.Vars, "operationName": sp.op.OpName})
			}
			// wait until every subscription delivered what its upstream will emit
			for _, sp := range mine {
				want := 0
				for _, ev := range sp.script.events {
					if ev.kind == "event" || ev.kind == "error" || ev.kind == "event-with-errors" {
						want++
					}
				}
				cl.waitFrames(sp.id, want, 120*time.Second)
			}
			if endMode {
				// every client has seen what its upstreams will emit; a while later the subscriptions
				// whose upstream said complete must be gone - the connections are still open
				allSeen.Add(1)
				for int(allSeen.Load()) < nConn {
					// (the others poll for frames on the simulated clock: let it run)
					time.Sleep(50 * time.Millisecond)
				}
				if c == 0 {
					// let everything that can still happen happen
					for i := 0; i < 200000 && !s.Quiet(); i++ {
						s.Park("wait-rest")
					}
					open := 0
					for _, sp := range specs {
						ended := false
						for _, ev := range sp.script.events {
							if ev.kind == "complete" {
								ended = true
							}
						}
						if !ended {
							open++
						}
					}
					var listeners []string
					for _, a := range s.Alive() {
						if strings.HasPrefix(a, "sub.listen:") {
							listeners = append(listeners, a)
						}
					}
					if len(listeners) > open {
						res.Violate(prop+"/listener-outlives-its-subscription", "%d subscriptions are still open upstream, but %d listener goroutines are alive after every upstream had sent its last frame and the system has come to rest (connections still open): %v", open, len(listeners), listeners)
					}
					res.Probe("sub.checked-listeners-after-upstream-complete")
					checked.Store(true)
				}
				for !checked.Load() {
					time.Sleep(50 * time.Millisecond)
				}
			}
			if stopFirst[c] {
				for _, sp := range mine {
					cl.send("stop", sp.id, nil)
				}
				time.Sleep(time.Second)
			}
			cl.send("connection_terminate", "", nil)
			// give the gateway time to close, then go away
			dl := time.Now().Add(30 * time.Second)
			for !cl.isClosed() && time.Now().Before(dl) {
				time.Sleep(100 * time.Millisecond)
			}
			cl.conn.Close()
		})
	}
	addTick(s, 6, 4100*time.Millisecond, func() bool { return env.handshaking() == 0 })
	defer env.closeAll()
	end := s.Run(func() bool { return int(finished.Load()) == nConn }, 600000, 200*time.Second)
	if end == sched.Hang {
		res.Violate(prop+"/hang", "subscription clients did not finish: parked=%v alive=%v", s.ParkedLabels(), clipStr(fmt.Sprint(s.Alive()), 400))
	} else if end == sched.StepBudget {
		res.Verdict, res.Anomaly = "anomaly", "step budget exhausted in SUB"
		return
	}
	// oracle
	stitched := false
	totalEvents := 0
	for _, sp := range specs {
		cl := clients[sp.conn]
		if cl == nil || cl.dialErr != "" {
			res.Violate(prop+"/connect-failed", "client %d could not connect: %v", sp.conn, cl)
			continue
		}
		if cl.parseErr != "" {
			res.Violate(prop+"/malformed-frame", "client %d received bytes that are not a well-formed message: %s", sp.conn, cl.parseErr)
			continue
		}
		if cl.handlerPanic != "" {
			res.Violate(prop+"/handler-panic", "subscription handler panicked: %s", cl.handlerPanic)
		}
		// which upstream connection served this subscription
		var uc *upstreamConn
		k := 0
		for _, u := range env.ups {
			if strings.Contains(u.query, sp.alias+":") {
				if k == sp.nth {
					uc = u
				}
				k++
			}
		}
		if uc == nil {
			res.Violate(prop+"/never-subscribed-upstream", "subscription %s on connection %d never reached its owning service\nop: %s", sp.id, sp.conn, sp.op.Text)
			continue
		}
		// expected items
		type item struct {
			seq int
			err string
		}
		var want []item
		ei, ri := 0, 0
		for _, ev := range uc.script.events {
			switch ev.kind {
			case "event":
				if ei < len(uc.emitted) {
					want = append(want, item{seq: uc.emitted[ei]})
					ei++
				}
			case "error", "event-with-errors":
				if ri < len(uc.errsSent) {
					want = append(want, item{err: uc.errsSent[ri]})
					ri++
				}
			}
		}
		got := cl.dataFrames(sp.id)
		res.Checks++
		if detMode {
			// the data frames that answer plain events (same upstream payload each time)
			var first string
			k := 0
			for j := 0; j < len(got) && j < len(want); j++ {
				if want[j].err != "" {
					continue
				}
				k++
				// the same data and the same set of errors (their relative order may vary)
				canon := string(got[j].Payload)
				var pl struct {
					Data   interface{}              `json:"data"`
					Errors []map[string]interface{} `json:"errors"`
				}
				if json.Unmarshal(got[j].Payload, &pl) == nil {
					db, _ := json.Marshal(pl.Data)
					var es []string
					for _, e := range pl.Errors {
						es = append(es, errKey(e))
					}
					sort.Strings(es)
					canon = string(db) + " errors=" + strings.Join(es, " | ")
				}
				if first == "" {
					first = canon
				} else if canon != first {
					res.Violate(prop+"/event-payloads-differ", "subscription %s: the upstream sent the same event %d times; delivery 1 is %s\ndelivery %d is %s\nop: %s", sp.id, k, clipStr(first, 400), k, clipStr(canon, 400), sp.op.Text)
					break
				}
			}
			if k > 1 {
				res.Probe("det.same-subscription-event-delivered-several-times")
			}
			continue
		}
		totalEvents += len(want)
		if len(got) != len(want) {
			res.Violate(prop+"/event-count", "subscription %s on connection %d: upstream emitted %d items, the client received %d data frames\nop: %s\nframes: %s", sp.id, sp.conn, len(want), len(got), sp.op.Text, clipStr(fmt.Sprint(frameSummary(got)), 400))
		}
		for j := 0; j < len(got) && j < len(want); j++ {
			var pl struct {
				Data   interface{}              `json:"data"`
				Errors []map[string]interface{} `json:"errors"`
			}
			if err := json.Unmarshal(got[j].Payload, &pl); err != nil {
				res.Violate(prop+"/bad-payload", "data frame %d of %s has an undecodable payload: %s", j, sp.id, clipStr(string(got[j].Payload), 200))
				break
			}
			if want[j].err != "" {
				found := false
				for _, e := range pl.Errors {
					if e["message"] == want[j].err {
						found = true
						// extensions and path as sent
						ext, _ := e["extensions"].(map[string]interface{})
						wantCode := "UP"
						if strings.HasPrefix(want[j].err, "upstream-partial-") {
							wantCode = "PARTIAL"
							if pj, _ := json.Marshal(e["path"]); string(pj) != `["zzRoot",0,"zz"]` {
								res.Violate(prop+"/upstream-error-path-changed", "item %d of %s: path of upstream error %q arrives as %s", j, sp.id, want[j].err, pj)
							}
						}
						if ext["code"] != wantCode {
							res.Violate(prop+"/upstream-error-extensions-changed", "item %d of %s: extensions of upstream error %q arrive as %v", j, sp.id, want[j].err, e["extensions"])
						}
					}
				}
				if !found {
					res.Violate(prop+"/upstream-error-not-forwarded", "item %d of %s: upstream error %q is not in the frame's errors: %s", j, sp.id, want[j].err, clipStr(string(got[j].Payload), 300))
				}
				continue
			}
			if len(pl.Errors) > 0 {
				res.Violate(prop+"/event-errors-nonempty", "event %d of subscription %s carries errors %v\nop: %s", j, sp.id, clipStr(fmt.Sprint(pl.Errors), 300), sp.op.Text)
				continue
			}
			ref := env.refEvent(sp.op, want[j].seq)
			if d := gql.Diff("data", gql.Normalize(gql.ToJSONValue(ref)), gql.Normalize(pl.Data)); d != "" {
				res.Violate(prop+"/event-data-"+diffKind(d), "event %d of subscription %s (connection %d): %s\nop: %s\nframe: %s", j, sp.id, sp.conn, d, sp.op.Text, clipStr(string(got[j].Payload), 400))
			}
		}
	}
	for _, wr := range env.wire {
		if strings.Contains(wr.Text, "node(id: $id)") {
			stitched = true
		}
		if wr.Kind == "subscription" && !wr.Valid {
			res.Violate(prop+"/invalid-upstream-subscription", "service %d received an invalid subscription: %s\n%s", wr.Svc, wr.Problem, wr.Text)
		}
	}
	hb := 0
	for _, cl := range clients {
		if cl == nil {
			continue
		}
		for _, f := range cl.frames {
			if f.Type == "ka" {
				hb++
			}
		}
	}
	res.ProbeN("sub.stitched-event", b2i(stitched))
	res.ProbeN("sub.events", totalEvents)
	res.ProbeN("sub.heartbeats-received", hb)
	res.ProbeN("sub.subscriptions", len(specs))
	res.ProbeN("sub.connections", nConn)
	for _, k := range sortedKeys(env.fired) {
		for i := 0; i < env.fired[k]; i++ {
			res.Fault(k)
		}
	}
	res.Nontrivial = totalEvents >= 2 && len(specs) >= 1
	var descr []string
	for _, sp := range specs {
		var evs []string
		for _, e := range sp.script.events {
			evs = append(evs, e.kind)
		}
		descr = append(descr, fmt.Sprintf("conn %d id %s: %s vars=%v upstream script=%v", sp.conn, sp.id, sp.op.Text, sp.op.Vars, evs))
	}
	res.Key = HashKey(w.UnionSDL, fmt.Sprint(w.Salt), strings.Join(descr, "|"), gc.String(), fmt.Sprintf("%x", s.TraceHash()))
	res.SchedKey = fmt.Sprintf("%x", s.TraceHash())
	res.Sample = map[string]any{"services": w.ServiceSDL, "gateway": gc.String(), "subscriptions": descr, "policy": fmt.Sprintf("%+v", s.Policy)}
}

func frameSummary(fs []wsFrame) []string {
	var out []string
	for _, f := range fs {
		out = append(out, f.Type+":"+f.ID+":"+clipStr(string(f.Payload), 80))
	}
	return out
}
