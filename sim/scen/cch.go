package scen

import (
	"fmt"
	"strings"
	"sync/atomic"
	"time"

	"github.com/vektah/gqlparser/v2/ast"

	"verif/sim/gql"
	"verif/sim/sched"
)

// C14: cached vs plain twin gateways over one request history.

func init() { Registry["C14"] = scenCCH }

type cchReq struct {
	label string
	req   clientReq
}

type cchStep struct {
	gapNs int64
	mode  string // single batch overlap
	reqs  []int  // indexes into the pool
}

func perturb(vars map[string]interface{}) map[string]interface{} {
	out := map[string]interface{}{}
	for k, v := range vars {
		switch vv := v.(type) {
		case int:
			out[k] = vv + 1
		case float64:
			out[k] = vv + 1
		case bool:
			out[k] = !vv
		default:
			out[k] = v
		}
	}
	return out
}

func scenCCH(s *sched.Sim, cfg Config, res *Result) {
	prop := "C14"
	s.Policy = drawPolicy(s)
	wf := worldFeatures(s, cfg)
	wf.Mutations = true
	wf.SharedRootName = s.T.Bool(1, 2)
	on, off := parseFeat(cfg.Features)
	if on["shared-root-name"] {
		wf.SharedRootName = true
	}
	if off["shared-root-name"] {
		wf.SharedRootName = false
	}
	of := opFeatures(s, cfg)
	of.MultiOp = false
	maxSvc, maxSteps := 3, 8
	if cfg.Thorough {
		maxSvc, maxSteps = 4, 20
	}
	w := gql.Generate(s.T, wf, maxSvc)
	gc := drawGwConfig(s)
	gc.CacheTTL = []string{"0s", "1ns", "1s", "1h"}[s.T.Choose(4)]
	if gc.Sanitize {
		of.NodeRoot = false
	}
	cached, err := newFedEnv(s, res, w, gc, prop)
	if err != nil {
		res.Verdict, res.Anomaly = "anomaly", "gateway start-up failed on a generated world: "+err.Error()
		return
	}
	gp := gc
	gp.CacheTTL = ""
	plain, err := newFedEnv(s, res, w, gp, prop)
	if err != nil {
		res.Verdict, res.Anomaly = "anomaly", "twin gateway start-up failed: "+err.Error()
		return
	}
	// the pool
	var pool []cchReq
	add := func(label string, r clientReq) { pool = append(pool, cchReq{label, r}) }
	base := gql.GenOp(s.T, w, w.Union, ast.Query, of, 4, 16)
	add("A", clientReq{Query: base.Text, Variables: base.Vars, OperationName: base.OpName})
	if txt, ok := gql.WithHelperIDs(w.Union, w, base); ok {
		// the same operation with the ids the planner adds for itself, sent by a client: another
		// operation, which wants to see those ids
		add("A-asking-for-the-helper-ids", clientReq{Query: txt, Variables: base.Vars, OperationName: base.OpName})
		res.Probe("cch.operation-equal-to-sanitized-form-of-another")
	}
	if len(base.Vars) > 0 {
		add("A-other-values", clientReq{Query: base.Text, Variables: perturb(base.Vars), OperationName: base.OpName})
	}
	if base.Def.Name != "" {
		other := "Renamed"
		txt := strings.Replace(base.Text, "query "+base.Def.Name, "query "+other, 1)
		var on *string
		if base.OpName != nil {
			on = &other
		}
		add("A-renamed", clientReq{Query: txt, Variables: base.Vars, OperationName: on})
	}
	// same selection, other operation type
	shared := ""
	for _, qf := range w.Query {
		for _, mf := range w.Mutation {
			if qf.Name == mf.Name {
				shared = qf.Name
			}
		}
	}
	if shared != "" {
		// a query that selects only the shared root field
		sub := ""
		fd := w.Union.Query.Fields.ForName(shared)
		ok := true
		for _, a := range fd.Arguments {
			if a.Type.NonNull && a.DefaultValue == nil {
				ok = false
			}
		}
		if ok {
			if d := w.Union.Types[fd.Type.Name()]; d != nil && (d.Kind == ast.Object || d.Kind == ast.Interface || d.Kind == ast.Union) {
				sub = " { __typename }"
				if d.Kind == ast.Object {
					for _, f := range d.Fields {
						if dd := w.Union.Types[f.Type.Name()]; (dd == nil || dd.Kind == ast.Scalar || dd.Kind == ast.Enum) && len(f.Arguments) == 0 && !strings.HasPrefix(f.Name, "__") {
							sub = " { " + f.Name + " }"
							break
						}
					}
				}
			}
			add("S-query", clientReq{Query: "query { " + shared + sub + " }"})
			add("S-mutation", clientReq{Query: "mutation { " + shared + sub + " }"})
			res.Probe("cch.same-selection-other-operation-type")
		}
	}
	// one document holding two operations, requested under either name (and once more, repeated)
	{
		o1 := gql.GenOp(s.T, w, w.Union, ast.Query, gql.OpFeatures{Aliases: true, ExplicitID: true, Typename: true}, 3, 8)
		o2 := gql.GenOp(s.T, w, w.Union, ast.Query, gql.OpFeatures{Aliases: true, ExplicitID: true}, 3, 8)
		b1, b2 := o1.Text, o2.Text
		if i := strings.Index(b1, "{"); i >= 0 {
			b1 = b1[i:]
		}
		if i := strings.Index(b2, "{"); i >= 0 {
			b2 = b2[i:]
		}
		doc := "query DocA " + b1 + "\nquery DocB " + b2
		na, nb := "DocA", "DocB"
		add("D-opA", clientReq{Query: doc, OperationName: &na})
		add("D-opB", clientReq{Query: doc, OperationName: &nb})
		res.Probe("cch.one-document-two-operation-names")
	}
	for i := 0; i < 2; i++ {
		kind := ast.Query
		if s.T.Bool(1, 3) {
			kind = ast.Mutation
		}
		o := gql.GenOp(s.T, w, w.Union, kind, of, 3, 12)
		add(fmt.Sprintf("U%d", i), clientReq{Query: o.Text, Variables: o.Vars, OperationName: o.OpName})
	}
	ttl, _ := time.ParseDuration(gc.CacheTTL)
	nSteps := 2 + s.T.Choose(maxSteps-1)
	var steps []cchStep
	for i := 0; i < nSteps; i++ {
		st := cchStep{}
		switch s.T.Choose(4) {
		case 0:
			st.gapNs = 0
		case 1:
			st.gapNs = int64(ttl) / 2
		case 2:
			st.gapNs = int64(ttl) + 1
		case 3:
			st.gapNs = 2*int64(ttl) + int64(time.Millisecond)
		}
		switch s.T.Choose(4) {
		case 0, 1:
			st.mode = "single"
			st.reqs = []int{s.T.Choose(len(pool))}
		case 2:
			st.mode = "batch"
			k := 2 + s.T.Choose(2)
			for j := 0; j < k; j++ {
				st.reqs = append(st.reqs, s.T.Choose(len(pool)))
			}
		case 3:
			st.mode = "overlap"
			st.reqs = []int{s.T.Choose(len(pool)), s.T.Choose(len(pool))}
			if s.T.Bool(1, 3) {
				// the same request from two clients at once (they share one cached plan object)
				st.reqs[1] = st.reqs[0]
			}
		}
		steps = append(steps, st)
	}
	type answer struct {
		data string
		errs []string
		raw  string
	}
	runHistory := func(env *fedEnv, who string, out *[][]answer, done *atomic.Bool) {
		s.Go(who, func() {
			for si, st := range steps {
				if st.gapNs > 0 {
					time.Sleep(time.Duration(st.gapNs))
				}
				var as []answer
				switch st.mode {
				case "single":
					cr := env.post(fmt.Sprintf("%s-%d", who, si), []clientReq{pool[st.reqs[0]].req}, false)
					d, e := resultKey(cr.Single)
					as = append(as, answer{d, e, clipStr(string(cr.Raw), 300)})
				case "batch":
					var rs []clientReq
					for _, i := range st.reqs {
						rs = append(rs, pool[i].req)
					}
					cr := env.post(fmt.Sprintf("%s-%d", who, si), rs, true)
					for i := range rs {
						var g *gwResult
						if i < len(cr.Batch) {
							g = cr.Batch[i]
						}
						d, e := resultKey(g)
						as = append(as, answer{d, e, clipStr(string(cr.Raw), 300)})
					}
				case "overlap":
					// time may pass while the two requests are in flight: a cached plan can expire (and be
					// evicted by the other request) between being fetched and being executed
					if who == "cached" && ttl > 0 && ttl <= time.Second && s.DrawBool(1, 2) {
						addTick(s, 1+s.Draw(2), ttl+time.Nanosecond, nil)
						res.Probe("cch.clock-advances-while-requests-overlap")
					}
					rs := make([]*clientResp, 2)
					var n atomic.Int32
					for j := 0; j < 2; j++ {
						j := j
						s.Go(fmt.Sprintf("%s-%d-o%d", who, si, j), func() {
							rs[j] = env.post(fmt.Sprintf("%s-%d-o%d", who, si, j), []clientReq{pool[st.reqs[j]].req}, false)
							n.Add(1)
						})
					}
					for n.Load() < 2 {
						s.Park("wait-overlap")
					}
					for j := 0; j < 2; j++ {
						d, e := resultKey(rs[j].Single)
						as = append(as, answer{d, e, clipStr(string(rs[j].Raw), 300)})
					}
				}
				*out = append(*out, as)
			}
			done.Store(true)
		})
	}
	var outC, outP [][]answer
	var doneC, doneP atomic.Bool
	runHistory(cached, "cached", &outC, &doneC)
	runHistory(plain, "plain", &outP, &doneP)
	end := s.Run(func() bool { return doneC.Load() && doneP.Load() && len(s.Alive()) == 0 }, 400000, 3*time.Hour)
	if end == sched.Hang {
		res.Violate(prop+"/hang", "cached=%v plain=%v parked=%v", doneC.Load(), doneP.Load(), s.ParkedLabels())
		return
	} else if end == sched.StepBudget {
		res.Verdict, res.Anomaly = "anomaly", "step budget exhausted in CCH"
		return
	}
	nreq := 0
	for si := range steps {
		if si >= len(outC) || si >= len(outP) {
			break
		}
		for j := range outC[si] {
			nreq++
			res.Checks++
			c, p := outC[si][j], outP[si][j]
			lbl := pool[steps[si].reqs[j]].label
			if c.data != p.data {
				res.Violate(prop+"/data-differs", "history step %d (%s) request %s: gateway with the caching planner answers %s, gateway with the plain planner answers %s\nrequest: %s\nTTL=%s", si, steps[si].mode, lbl, clipStr(c.data, 400), clipStr(p.data, 400), pool[steps[si].reqs[j]].req.Query, gc.CacheTTL)
			}
			if strings.Join(c.errs, "|") != strings.Join(p.errs, "|") {
				res.Violate(prop+"/errors-differ", "history step %d request %s: cached errors %v, plain errors %v\nrequest: %s", si, lbl, c.errs, p.errs, pool[steps[si].reqs[j]].req.Query)
			}
		}
	}
	// probes: plan reuse (the cached planner returns the same plan object twice)
	seen := map[string]bool{}
	for _, ps := range cached.plans {
		for _, p := range ps {
			k := fmt.Sprintf("%p", p)
			if seen[k] {
				res.Probe("cch.plan-cache-hit")
			}
			seen[k] = true
		}
	}
	var hist []string
	for _, st := range steps {
		var ls []string
		for _, i := range st.reqs {
			ls = append(ls, pool[i].label)
		}
		hist = append(hist, fmt.Sprintf("+%s %s %v", time.Duration(st.gapNs), st.mode, ls))
		if st.gapNs > int64(ttl) {
			res.Probe("cch.gap-beyond-ttl")
		}
		if st.mode != "single" {
			res.Probe("cch.concurrent-planning")
		}
	}
	res.Nontrivial = nreq >= 3 && len(cached.wire) > 0
	res.Key = HashKey(w.UnionSDL, fmt.Sprint(w.Salt), strings.Join(hist, ";"), base.Text, gc.String(), fmt.Sprintf("%x", s.TraceHash()))
	res.SchedKey = fmt.Sprintf("%x", s.TraceHash())
	var pl []string
	for _, p := range pool {
		pl = append(pl, p.label+": "+clipStr(p.req.Query, 200))
	}
	res.Sample = map[string]any{"services": w.ServiceSDL, "gateway": gc.String(), "pool": pl, "history(gap mode requests)": hist}
}
