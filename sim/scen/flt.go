package scen

import (
	"context"
	"encoding/json"
	"fmt"
	"strings"
	"time"

	"github.com/vektah/gqlparser/v2/ast"

	"verif/sim/gql"
	"verif/sim/sched"
	"verif/sim/simnet"
)

// C09: downstream failures are contained and reported, never masked.
// Single faults are enumerated per (world, operation): fault kind x call site x batch position.

func init() { Registry["C09"] = scenFLT }

type faultKind struct {
	name   string
	signal bool // a failure signal: errors must be non-empty
	// transport-level
	transport string
	err       error
	// the client disconnects at that moment: the request context ends
	clientGivesUp bool
	status        int
	body          string
	// answer-level: rewrite element pos of the decoded answer array (or the whole body)
	whole func(b []byte) []byte
	elem  func(el map[string]interface{}) (map[string]interface{}, bool)
	// nodeOnly: applies only to answers of node(id: $id) lookups
	nodeOnly bool
	arr      func(arr []interface{}) ([]interface{}, bool)
}

// walkJSON visits every (parent map, key) pair depth-first in sorted key order.
func walkJSON(v interface{}, fn func(parent map[string]interface{}, key string, val interface{}) bool) bool {
	switch vv := v.(type) {
	case map[string]interface{}:
		for _, k := range sortedKeys(vv) {
			if fn(vv, k, vv[k]) {
				return true
			}
			if walkJSON(vv[k], fn) {
				return true
			}
		}
	case []interface{}:
		for _, c := range vv {
			if walkJSON(c, fn) {
				return true
			}
		}
	}
	return false
}

func dataOf(el map[string]interface{}) (map[string]interface{}, bool) {
	d, ok := el["data"].(map[string]interface{})
	return d, ok
}

// faultKinds: shape faults rewrite the (skip+1)-th place of the answer they apply to (the last
// one when there are fewer).
func faultKinds(skip int) []faultKind {
	shape := func(name string, mut func(parent map[string]interface{}, key string, val interface{}) bool) faultKind {
		return faultKind{name: name, elem: func(el map[string]interface{}) (map[string]interface{}, bool) {
			d, ok := dataOf(el)
			if !ok {
				return el, false
			}
			// count the places without rewriting (mut rewrites what it matches: probe on a copy)
			matches := func(k string, v interface{}) bool {
				probe := map[string]interface{}{k: deepCopyJSON(v)}
				return mut(probe, k, probe[k])
			}
			places := 0
			walkJSON(d, func(p map[string]interface{}, k string, v interface{}) bool {
				if matches(k, v) {
					places++
				}
				return false
			})
			if places == 0 {
				return el, false
			}
			want, seen := skip, 0
			if want >= places {
				want = places - 1
			}
			done := walkJSON(d, func(p map[string]interface{}, k string, v interface{}) bool {
				if !matches(k, v) {
					return false
				}
				if seen < want {
					seen++
					return false
				}
				return mut(p, k, v)
			})
			return el, done
		}}
	}
	return []faultKind{
		{name: "transport-error-before", signal: true, transport: "ErrBefore"},
		{name: "transport-error-after", signal: true, transport: "ErrAfter"},
		{name: "transport-context-canceled", signal: true, transport: "ErrAfter", err: context.Canceled},
		{name: "client-gives-up-during-call", signal: true, transport: "ErrBefore", err: context.Canceled, clientGivesUp: true},
		{name: "transport-deadline-exceeded", signal: true, transport: "ErrBefore", err: context.DeadlineExceeded},
		{name: "status-500-with-body", signal: true, transport: "Status", status: 500, body: `{"errors":[{"message":"internal"}]}`},
		{name: "status-404-empty", signal: true, transport: "Status", status: 404, body: ``},
		{name: "status-502-with-valid-answer-body", signal: true, transport: "StatusKeepBody", status: 502},
		{name: "status-404-with-valid-answer-body", signal: true, transport: "StatusKeepBody", status: 404},
		{name: "status-304-with-valid-answer-body", signal: true, transport: "StatusKeepBody", status: 304},
		{name: "body-read-error", signal: true, transport: "ReadErr"},
		// what can follow a complete, well-formed answer on the wire
		{name: "connection-lost-after-the-complete-answer", signal: true, transport: "ReadErrEnd"},
		{name: "answer-followed-by-garbage", signal: true, whole: func(b []byte) []byte {
			return append(append([]byte{}, b...), []byte("\n<html><body>502 Bad Gateway</body></html>")...)
		}},
		{name: "answer-sent-twice", signal: true, whole: func(b []byte) []byte { return append(append([]byte{}, b...), b...) }},
		{name: "not-json", signal: true, whole: func([]byte) []byte { return []byte("<html>bad gateway</html>") }},
		{name: "json-not-array", signal: true, whole: func(b []byte) []byte { return []byte(`{"data":{"x":1}}`) }},
		{name: "array-too-short", signal: true, arr: func(a []interface{}) ([]interface{}, bool) {
			if len(a) == 0 {
				return a, false
			}
			return a[:len(a)-1], true
		}},
		{name: "array-too-long", signal: true, arr: func(a []interface{}) ([]interface{}, bool) {
			return append(a, map[string]interface{}{"data": map[string]interface{}{"extra": "injected-extra-element"}}), true
		}},
		{name: "element-errors", signal: true, elem: func(el map[string]interface{}) (map[string]interface{}, bool) {
			return map[string]interface{}{"data": nil, "errors": []interface{}{map[string]interface{}{"message": "svc-error-A", "extensions": map[string]interface{}{"code": "E1", "n": map[string]interface{}{"k": 1.0}}, "path": []interface{}{"a", 1.0, "b"}}}}, true
		}},
		{name: "element-errors-with-partial-data", signal: true, elem: func(el map[string]interface{}) (map[string]interface{}, bool) {
			el["errors"] = []interface{}{map[string]interface{}{"message": "svc-error-B", "extensions": map[string]interface{}{"code": "E2"}}, map[string]interface{}{"message": "svc-error-C", "extensions": map[string]interface{}{"code": "E3"}}}
			return el, true
		}},
		{name: "element-without-data", signal: true, elem: func(el map[string]interface{}) (map[string]interface{}, bool) {
			return map[string]interface{}{}, true
		}},
		{name: "element-data-null", signal: true, elem: func(el map[string]interface{}) (map[string]interface{}, bool) {
			return map[string]interface{}{"data": nil}, true
		}},
		{name: "element-data-null-errors-empty", signal: true, elem: func(el map[string]interface{}) (map[string]interface{}, bool) {
			return map[string]interface{}{"data": nil, "errors": []interface{}{}}, true
		}},
		{name: "element-errors-empty-without-data", signal: true, elem: func(el map[string]interface{}) (map[string]interface{}, bool) {
			return map[string]interface{}{"errors": []interface{}{}}, true
		}},
		{name: "element-errors-list-of-null", signal: true, elem: func(el map[string]interface{}) (map[string]interface{}, bool) {
			return map[string]interface{}{"errors": []interface{}{nil}}, true
		}},
		{name: "element-data-null-errors-list-of-null", signal: true, elem: func(el map[string]interface{}) (map[string]interface{}, bool) {
			return map[string]interface{}{"data": nil, "errors": []interface{}{nil, nil}}, true
		}},
		{name: "element-errors-null-without-data", signal: true, elem: func(el map[string]interface{}) (map[string]interface{}, bool) {
			return map[string]interface{}{"errors": nil, "extensions": map[string]interface{}{"x": 1.0}}, true
		}},
		{name: "node-key-missing", signal: true, nodeOnly: true, elem: func(el map[string]interface{}) (map[string]interface{}, bool) {
			d, ok := dataOf(el)
			if !ok {
				return el, false
			}
			if _, has := d["node"]; !has {
				return el, false
			}
			delete(d, "node")
			return el, true
		}},
		{name: "node-is-string", signal: true, nodeOnly: true, elem: nodeAs("a-string-instead-of-node")},
		{name: "node-is-number", signal: true, nodeOnly: true, elem: nodeAs(12345.0)},
		{name: "node-is-array", signal: true, nodeOnly: true, elem: nodeAs([]interface{}{"x"})},
		shape("object-where-list-declared", func(p map[string]interface{}, k string, v interface{}) bool {
			if _, ok := v.([]interface{}); ok && k != "node" {
				p[k] = map[string]interface{}{"injected": "obj-for-list"}
				return true
			}
			return false
		}),
		shape("list-where-object-declared", func(p map[string]interface{}, k string, v interface{}) bool {
			if _, ok := v.(map[string]interface{}); ok && k != "node" {
				p[k] = []interface{}{v}
				return true
			}
			return false
		}),
		shape("empty-list-where-object-declared", func(p map[string]interface{}, k string, v interface{}) bool {
			if _, ok := v.(map[string]interface{}); ok && k != "node" {
				p[k] = []interface{}{}
				return true
			}
			return false
		}),
		shape("scalar-where-object-declared", func(p map[string]interface{}, k string, v interface{}) bool {
			if _, ok := v.(map[string]interface{}); ok && k != "node" {
				p[k] = "injected-scalar-for-object"
				return true
			}
			return false
		}),
		shape("non-object-list-entry", func(p map[string]interface{}, k string, v interface{}) bool {
			if l, ok := v.([]interface{}); ok && len(l) > 0 {
				if _, isObj := l[0].(map[string]interface{}); isObj {
					l[len(l)/2] = "injected-non-object-entry"
					return true
				}
			}
			return false
		}),
		shape("null-for-value", func(p map[string]interface{}, k string, v interface{}) bool {
			if v != nil && k != "id" && k != "__typename" && k != "node" {
				p[k] = nil
				return true
			}
			return false
		}),
		shape("entity-without-id", func(p map[string]interface{}, k string, v interface{}) bool {
			if m, ok := v.(map[string]interface{}); ok {
				if _, has := m["id"]; has && k != "node" {
					delete(m, "id")
					return true
				}
			}
			if l, ok := v.([]interface{}); ok {
				for _, e := range l {
					if m, ok := e.(map[string]interface{}); ok {
						if _, has := m["id"]; has {
							delete(m, "id")
							return true
						}
					}
				}
			}
			return false
		}),
		shape("id-of-non-string-type", func(p map[string]interface{}, k string, v interface{}) bool {
			if k == "id" {
				p[k] = 4242.0
				return true
			}
			return false
		}),
		shape("unrequested-extra-keys", func(p map[string]interface{}, k string, v interface{}) bool {
			if m, ok := v.(map[string]interface{}); ok {
				m["zzExtra"] = "injected-extra-key"
				return true
			}
			return false
		}),
	}
}

func nodeAs(v interface{}) func(el map[string]interface{}) (map[string]interface{}, bool) {
	return func(el map[string]interface{}) (map[string]interface{}, bool) {
		d, ok := dataOf(el)
		if !ok {
			return el, false
		}
		if _, has := d["node"]; !has {
			return el, false
		}
		d["node"] = v
		return el, true
	}
}

type fltTarget struct {
	tagPrefix string
	ordinal   int // k-th delivery (1-based) of the target request
	kind      *faultKind
	pos       int // batch position: 0 first, 1 middle, 2 last
	fired     bool
	applied   bool
	count     int
}

func scenFLT(s *sched.Sim, cfg Config, res *Result) {
	prop := "C09"
	wf := worldFeatures(s, cfg)
	of := opFeatures(s, cfg)
	maxSvc := 3
	if cfg.Thorough {
		maxSvc = 4
	}
	w := gql.Generate(s.T, wf, maxSvc)
	if s.T.Bool(1, 2) {
		w.NullRate = 0
	}
	gc := drawGwConfig(s)
	if gc.Sanitize {
		of.NodeRoot = false
	}
	env, err := newFedEnv(s, res, w, gc, prop)
	if err != nil {
		res.Verdict, res.Anomaly = "anomaly", "gateway start-up failed on a generated world: "+err.Error()
		return
	}
	kindOp := ast.Query
	if w.Union.Mutation != nil && s.T.Bool(1, 5) {
		kindOp = ast.Mutation
	}
	op := gql.GenOp(s.T, w, w.Union, kindOp, of, 4, 16)
	clean := gql.GenOp(s.T, w, w.Union, ast.Query, of, 3, 10)
	kinds := faultKinds(s.T.Choose(4))
	on, off := parseFeat(cfg.Features)
	_ = on
	var target *fltTarget
	env.net.FaultFor = func(m *simnet.Message) *simnet.Fault {
		t := target
		if t == nil || !strings.HasPrefix(m.Tag, t.tagPrefix) {
			return nil
		}
		t.count++
		if t.count != t.ordinal {
			return nil
		}
		t.fired = true
		k := t.kind
		if k.transport != "" {
			t.applied = true
			switch k.transport {
			case "Status":
				return &simnet.Fault{Kind: "Status", Status: k.status, Body: []byte(k.body)}
			case "StatusKeepBody":
				return &simnet.Fault{Kind: "StatusKeepBody", Status: k.status}
			case "ReadErr":
				return &simnet.Fault{Kind: "ReadErr", At: 5}
			case "ReadErrEnd":
				return &simnet.Fault{Kind: "ReadErr", At: 1 << 30}
			}
			if k.clientGivesUp {
				// every call of this request in flight or still to come fails with it
				env.clientGivesUp(strings.SplitN(m.Tag, "#", 2)[0])
			}
			return &simnet.Fault{Kind: k.transport, Err: k.err}
		}
		return &simnet.Fault{Kind: k.name, Mutate: func(b []byte) []byte {
			if k.whole != nil {
				t.applied = true
				return k.whole(b)
			}
			var arr []interface{}
			if err := json.Unmarshal(b, &arr); err != nil {
				return b
			}
			if k.arr != nil {
				na, ok := k.arr(arr)
				t.applied = ok
				nb, _ := json.Marshal(na)
				return nb
			}
			if len(arr) == 0 {
				return b
			}
			idx := []int{0, len(arr) / 2, len(arr) - 1}[t.pos]
			el, ok := arr[idx].(map[string]interface{})
			if !ok {
				return b
			}
			if k.nodeOnly {
				reqs, _, _, _, _, err := parseWire(m)
				if err != nil || idx >= len(reqs) || !strings.Contains(reqs[idx].Query, "node(id: $id)") {
					return b
				}
			}
			ne, applied := k.elem(el)
			t.applied = applied
			arr[idx] = ne
			nb, _ := json.Marshal(arr)
			return nb
		}}
	}
	s.Describe(map[string]any{"services": w.ServiceSDL, "gateway": gc.String(), "operation": op.Text, "variables": op.Vars, "note": "fault cases are enumerated in order; the last trace lines show where the run died"})
	// policy for enumeration passes: a fixed canonical schedule so that call sites are stable
	s.Policy = sched.Policy{Deviation: 0}
	done := false
	type caseRec struct {
		kind   string
		site   int
		pos    int
		mode   string
		ok     bool
		detail string
	}
	var cases []caseRec
	nSites := 0
	var cleanWant, opWant map[string]interface{}
	cleanWant = env.reference(clean)
	opWant = env.reference(op)
	reqOf := func(o *gql.Op) clientReq {
		return clientReq{Query: o.Text, Variables: o.Vars, OperationName: o.OpName}
	}
	caseNo := 0
	crashProne := map[string]bool{}
	if !on["fault-array-too-long"] && off["fault-array-too-long"] {
		crashProne["array-too-long"] = true
	}
	s.Go("client", func() {
		defer func() { done = true }()
		// fault-free pass: enumerate call sites
		target = nil
		cr := env.post("base", []clientReq{reqOf(op)}, false)
		for _, m := range env.net.Log {
			if strings.HasPrefix(m.Tag, "base#") {
				nSites++
			}
		}
		if cr.Single == nil || len(cr.Single.Errors) > 0 || compareData(opWant, cr.Single) != "" {
			// the fault-free answer must be right first (C01's business if not)
			res.Violate(prop+"/fault-free-run-wrong", "the fault-free run of the operation is already wrong: %s", clipStr(string(cr.Raw), 300))
			return
		}
		sites := nSites
		if sites > 5 {
			sites = 5
		}
		for site := 1; site <= sites; site++ {
			for ki := range kinds {
				k := &kinds[ki]
				if crashProne[k.name] {
					continue
				}
				positions := []int{0}
				if k.elem != nil {
					positions = []int{0, 1, 2}
				}
				for _, pos := range positions {
					if caseNo >= 700 {
						return
					}
					caseNo++
					mode := []string{"single", "single", "batch-with-clean-sibling"}[s.T.Choose(3)]
					if clean.Text == op.Text {
						// identical elements cannot be told apart for fault targeting
						mode = "single"
					}
					tag := fmt.Sprintf("f%d", caseNo)
					// in a batch the faulted operation is the first or the second element
					at := 0
					if mode != "single" && s.DrawBool(1, 2) {
						at = 1
					}
					target = &fltTarget{tagPrefix: fmt.Sprintf("%s#%d", tag, at), ordinal: site, kind: k, pos: pos}
					wireFrom := len(env.net.Log)
					var got *gwResult
					var sibling *gwResult
					var raw *clientResp
					if mode == "single" {
						raw = env.post(tag, []clientReq{reqOf(op)}, false)
						got = raw.Single
					} else {
						// the elements of a batch run side by side: half of these cases under a drawn
						// schedule instead of the canonical one (the fault then hits the site-th call of
						// the faulted element in that schedule)
						if s.DrawBool(1, 2) {
							pol := drawPolicyOn(s)
							pol.NoSearch = nil
							s.SetPolicy(pol)
							res.Probe("flt.batch-case-under-drawn-schedule")
						}
						if at == 0 {
							raw = env.post(tag, []clientReq{reqOf(op), reqOf(clean)}, true)
						} else {
							raw = env.post(tag, []clientReq{reqOf(clean), reqOf(op)}, true)
							res.Probe("flt.faulted-operation-second-in-batch")
						}
						s.SetPolicy(sched.Policy{Deviation: 0})
						if len(raw.Batch) == 2 {
							got, sibling = raw.Batch[at], raw.Batch[1-at]
						}
					}
					t := target
					target = nil
					if !t.fired || !t.applied {
						continue
					}
					res.Fault(k.name)
					res.Checks++
					rec := caseRec{kind: k.name, site: site, pos: pos, mode: mode, ok: true}
					fail := func(sig, format string, args ...any) {
						rec.ok = false
						rec.detail = fmt.Sprintf(format, args...)
						res.Violate(prop+"/"+sig+":"+k.name, "fault %s at call site %d (batch position %d, %s): %s\nop: %s\nvars: %v\nanswer: %s", k.name, site, pos, mode, rec.detail, op.Text, op.Vars, clipStr(string(raw.Raw), 400))
					}
					switch {
					case raw.Panic != "":
						fail("handler-panic", "handler panicked: %s", raw.Panic)
					case raw.Status != 200:
						fail("status", "status %d", raw.Status)
					case raw.BadJSON != "" || got == nil:
						fail("malformed-response", "response is not a well-formed result (%s)", raw.BadJSON)
					default:
						if k.signal && len(got.Errors) == 0 {
							fail("failure-not-reported", "the service answer was a failure signal but errors is empty")
						}
						// no value that no service returned
						have := map[string]bool{}
						for _, m := range env.net.Log[wireFrom:] {
							if !strings.HasPrefix(m.Tag, fmt.Sprintf("%s#%d", tag, at)) || m.Resp == nil {
								continue
							}
							var v interface{}
							if json.Unmarshal(m.Resp, &v) == nil {
								gql.Leaves(v, have)
							}
						}
						gotLeaves := map[string]bool{}
						gql.Leaves(withoutGatewayAnswered(got.Data, op), gotLeaves)
						for _, l := range gql.SortedKeys(gotLeaves) {
							if !have[l] {
								fail("invented-value", "data contains %s which no service returned for this operation", clipStr(l, 120))
								break
							}
						}
						// (a client that went away took the whole HTTP request with it, siblings included)
						if sibling != nil && !k.clientGivesUp {
							if len(sibling.Errors) > 0 || compareData(cleanWant, sibling) != "" {
								fail("sibling-affected", "the clean operation in the same batch was affected: %s errors=%v", compareData(cleanWant, sibling), sibling.Errors)
							}
						}
					}
					cases = append(cases, rec)
				}
			}
			// after the faults at this site: a later clean request is unaffected
			target = nil
			cr := env.post(fmt.Sprintf("after%d", site), []clientReq{reqOf(clean)}, false)
			res.Checks++
			if cr.Single == nil || len(cr.Single.Errors) > 0 || compareData(cleanWant, cr.Single) != "" {
				res.Violate(prop+"/later-request-affected", "a clean request after the faults at call site %d is wrong: %s", site, clipStr(string(cr.Raw), 300))
			}
		}
	})
	end := s.Run(func() bool { return done && len(s.Alive()) == 0 }, 3000000, 10*time.Second)
	if end == sched.Hang {
		k := "?"
		if target != nil {
			k = target.kind.name
		}
		res.Violate(prop+"/hang:"+k, "gateway hangs after fault %s: case %d parked=%v alive=%v", k, caseNo, s.ParkedLabels(), clipStr(fmt.Sprint(s.Alive()), 300))
	} else if end == sched.StepBudget {
		res.Verdict, res.Anomaly = "anomaly", "step budget exhausted in FLT"
		return
	}
	res.ProbeN("flt.call-sites", nSites)
	res.ProbeN("flt.cases", len(cases))
	res.Nontrivial = nSites >= 2 && len(cases) >= 10
	res.Key = HashKey(w.UnionSDL, fmt.Sprint(w.Salt), op.Text, fmt.Sprint(op.Vars), gc.String(), fmt.Sprint(len(cases)))
	res.SchedKey = fmt.Sprintf("%x", s.TraceHash())
	var cs []string
	for i, c := range cases {
		if i < 12 {
			cs = append(cs, fmt.Sprintf("%s@site%d/pos%d/%s ok=%v", c.kind, c.site, c.pos, c.mode, c.ok))
		}
	}
	res.Sample = map[string]any{"services": w.ServiceSDL, "gateway": gc.String(), "operation": op.Text, "variables": op.Vars, "call_sites": nSites,
		"fault_cases_run": len(cases), "first_cases": cs}
}

// withoutGatewayAnswered drops the root keys which the gateway answers itself (__typename,
// __type, __schema): their values come from no service.
func withoutGatewayAnswered(d interface{}, op *gql.Op) interface{} {
	data, isMap := d.(map[string]interface{})
	if !isMap || op == nil || op.Def == nil {
		return d
	}
	out := make(map[string]interface{}, len(data))
	for k, v := range data {
		out[k] = v
	}
	for _, sel := range op.Def.SelectionSet {
		if f, ok := sel.(*ast.Field); ok && strings.HasPrefix(f.Name, "__") {
			delete(out, f.Alias)
		}
	}
	return out
}
