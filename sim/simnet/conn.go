package simnet

import (
	"bufio"
	"bytes"
	"errors"
	"fmt"
	"io"
	"net"
	"net/http"
	"os"
	"sync"
	"time"

	"verif/sim/sched"
)

// Conn is one end of a simulated stream connection. Every Write is a scheduling point; the
// bytes travel as ordered segments whose delivery to the peer's read buffer is a driver
// action (whole or split at a drawn offset). A connection can be reset between any two
// deliveries.
type Conn struct {
	S    *sched.Sim
	ID   string
	peer *Conn

	mu      sync.Mutex
	rbuf    []byte
	eof     bool
	reset   bool
	closed  bool
	notify  chan struct{}
	rdl     time.Time
	out     []*segment
	actOn   bool
	Split   bool // allow split deliveries
	NoYield bool // writes are not scheduling points (harness-only connections)

	// statistics / observations
	BytesOut   int
	Writes     int
	Deliveries int
	Splits     int
	WasReset   bool
	SawEOF     bool
	OnDeliver  func(data []byte, fin bool)
}

type segment struct {
	data []byte
	fin  bool
}

type addr string

func (a addr) Network() string { return "sim" }
func (a addr) String() string  { return string(a) }

// Pipe creates a connected pair.
func Pipe(s *sched.Sim, id string) (*Conn, *Conn) {
	a := &Conn{S: s, ID: id + ":a", notify: make(chan struct{}, 1), Split: true}
	b := &Conn{S: s, ID: id + ":b", notify: make(chan struct{}, 1), Split: true}
	a.peer, b.peer = b, a
	return a, b
}

func (c *Conn) signal() {
	select {
	case c.notify <- struct{}{}:
	default:
	}
}

var ErrReset = errors.New("simnet: connection reset by peer")

func (c *Conn) Read(p []byte) (int, error) {
	for {
		c.mu.Lock()
		if len(c.rbuf) > 0 {
			n := copy(p, c.rbuf)
			c.rbuf = c.rbuf[n:]
			c.mu.Unlock()
			return n, nil
		}
		switch {
		case c.reset:
			c.mu.Unlock()
			return 0, ErrReset
		case c.closed:
			c.mu.Unlock()
			return 0, net.ErrClosed
		case c.eof:
			c.SawEOF = true
			c.mu.Unlock()
			return 0, io.EOF
		}
		dl := c.rdl
		c.mu.Unlock()
		if c.S.Down() {
			return 0, ErrReset
		}
		if dl.IsZero() {
			<-c.notify
			continue
		}
		d := time.Until(dl)
		if d <= 0 {
			return 0, os.ErrDeadlineExceeded
		}
		t := time.NewTimer(d)
		select {
		case <-c.notify:
			t.Stop()
		case <-t.C:
		}
	}
}

func (c *Conn) Write(p []byte) (int, error) {
	if !c.NoYield {
		c.S.Yield("conn.write")
	}
	c.mu.Lock()
	defer c.mu.Unlock()
	if c.reset {
		return 0, ErrReset
	}
	if c.closed {
		return 0, net.ErrClosed
	}
	if c.S.Down() {
		return 0, ErrReset
	}
	c.Writes++
	c.BytesOut += len(p)
	c.out = append(c.out, &segment{data: append([]byte(nil), p...)})
	c.arm()
	return len(p), nil
}

// arm registers the delivery action for the head segment (caller holds c.mu).
func (c *Conn) arm() {
	if c.actOn || len(c.out) == 0 {
		return
	}
	c.actOn = true
	c.S.AddAction(&sched.Action{ID: "conn.deliver:" + c.ID, Class: "conn.deliver", Fire: c.deliver})
}

// deliver runs on the driver goroutine.
func (c *Conn) deliver() {
	c.mu.Lock()
	c.actOn = false
	if len(c.out) == 0 || c.reset {
		c.mu.Unlock()
		return
	}
	seg := c.out[0]
	data := seg.data
	fin := seg.fin
	if !fin && c.Split && len(data) > 1 && c.S.DrawBool(1, 5) {
		k := 1 + c.S.Draw(len(data)-1)
		data = seg.data[:k]
		seg.data = seg.data[k:]
		c.Splits++
	} else {
		c.out = c.out[1:]
	}
	c.Deliveries++
	c.arm()
	p := c.peer
	cb := c.OnDeliver
	c.mu.Unlock()
	p.mu.Lock()
	if fin {
		p.eof = true
	} else {
		p.rbuf = append(p.rbuf, data...)
	}
	p.mu.Unlock()
	p.signal()
	if cb != nil {
		cb(data, fin)
	}
}

func (c *Conn) Close() error {
	c.mu.Lock()
	if c.closed {
		c.mu.Unlock()
		return nil
	}
	c.closed = true
	if !c.reset {
		c.out = append(c.out, &segment{fin: true})
		c.arm()
	}
	c.mu.Unlock()
	c.signal()
	return nil
}

// Reset tears the connection down abruptly (both directions, pending segments are lost).
func (c *Conn) Reset() {
	for _, e := range []*Conn{c, c.peer} {
		e.mu.Lock()
		e.reset = true
		e.WasReset = true
		e.out = nil
		e.mu.Unlock()
		e.signal()
	}
}

// PeerGone reports whether this end has been told (EOF or reset) that the peer is gone.
func (c *Conn) PeerGone() bool {
	c.mu.Lock()
	defer c.mu.Unlock()
	return c.eof || c.reset
}

func (c *Conn) IsClosed() bool {
	c.mu.Lock()
	defer c.mu.Unlock()
	return c.closed || c.reset
}

func (c *Conn) Pending() int {
	c.mu.Lock()
	defer c.mu.Unlock()
	return len(c.out)
}

func (c *Conn) LocalAddr() net.Addr  { return addr(c.ID) }
func (c *Conn) RemoteAddr() net.Addr { return addr(c.peer.ID) }
func (c *Conn) SetDeadline(t time.Time) error {
	c.mu.Lock()
	c.rdl = t
	c.mu.Unlock()
	c.signal()
	return nil
}
func (c *Conn) SetReadDeadline(t time.Time) error  { return c.SetDeadline(t) }
func (c *Conn) SetWriteDeadline(t time.Time) error { return nil }

// HijackWriter is the http.ResponseWriter of the simulated server loop.
type HijackWriter struct {
	Conn     net.Conn
	BRW      *bufio.ReadWriter
	H        http.Header
	Hijacked bool
	Code     int
	Body     bytes.Buffer
}

func (w *HijackWriter) Header() http.Header {
	if w.H == nil {
		w.H = http.Header{}
	}
	return w.H
}
func (w *HijackWriter) Write(p []byte) (int, error) {
	if w.Code == 0 {
		w.Code = 200
	}
	return w.Body.Write(p)
}
func (w *HijackWriter) WriteHeader(code int) { w.Code = code }
func (w *HijackWriter) Hijack() (net.Conn, *bufio.ReadWriter, error) {
	if w.Hijacked {
		return nil, nil, fmt.Errorf("already hijacked")
	}
	w.Hijacked = true
	return w.Conn, w.BRW, nil
}

// ServeConn plays net/http's part for one connection: read one request, call the handler,
// write the response unless the connection was hijacked. A handler panic is recovered and
// reported like net/http does (connection closed).
func ServeConn(conn net.Conn, handler http.HandlerFunc) (panicked string, hijacked bool) {
	br := bufio.NewReader(conn)
	req, err := http.ReadRequest(br)
	if err != nil {
		conn.Close()
		return "", false
	}
	w := &HijackWriter{Conn: conn, BRW: bufio.NewReadWriter(br, bufio.NewWriter(conn))}
	func() {
		defer func() {
			if r := recover(); r != nil {
				panicked = fmt.Sprint(r)
			}
		}()
		handler(w, req)
	}()
	if !w.Hijacked {
		code := w.Code
		if code == 0 {
			code = 200
		}
		resp := &http.Response{StatusCode: code, ProtoMajor: 1, ProtoMinor: 1, Header: w.Header(), Body: io.NopCloser(bytes.NewReader(w.Body.Bytes())), ContentLength: int64(w.Body.Len())}
		resp.Write(conn)
	}
	conn.Close()
	return panicked, w.Hijacked
}
