// Package simnet is the simulated network: an http.RoundTripper whose every request delivery
// and reply delivery is a separate driver action (so answers overtake each other), with a
// fault plan applied on either leg, plus stream connections, request bodies and a hijackable
// response writer for the websocket path.
package simnet

import (
	"context"
	"crypto/sha256"
	"encoding/hex"
	"errors"
	"fmt"
	"hash/fnv"
	"io"
	"net"
	"net/http"
	"os"
	"strconv"
	"sync"
	"syscall"

	"verif/sim/sched"
)

// Message is one HTTP exchange gateway -> service.
type Message struct {
	Seq         int    // global arrival ordinal at the transport
	Tag         string // attribution: which client operation caused it
	URL         string
	ContentType string
	Body        []byte
	Label       string
	Delivered   bool // the service saw it
	DeliverSeq  int  // global delivery ordinal (0 = not delivered)
	Status      int
	Resp        []byte
	Fault       string
	reply       chan *reply
	answered    bool
}

type reply struct {
	status int
	body   []byte
	err    error
	// readErrAt >= 0: the body reader fails after that many bytes
	readErrAt int
}

// Fault describes what happens to one exchange.
type Fault struct {
	Kind string
	// ErrBefore: connection error, service never sees the request
	// ErrAfter: service processes the request, the answer is lost (connection error)
	// Status: answer replaced by Status/Body
	// ReadErr: body read fails at byte At
	// Mutate: service answer rewritten by Mutate
	Status int
	Body   []byte
	At     int
	Mutate func(resp []byte) []byte
	// Err replaces the connection error of ErrBefore / ErrAfter (e.g. context.Canceled)
	Err error
}

func (f *Fault) connErr() error {
	if f.Err != nil {
		return f.Err
	}
	return ErrConn
}

// connErrShape picks the shape of a connection error from what is sent (the same request fails the
// same way wherever and whenever it is sent: scenarios compare runs with each other).
func connErrShape(m *Message) int {
	h := fnv.New32a()
	h.Write([]byte(m.URL))
	h.Write(m.Body)
	return int(h.Sum32() % 5)
}

// realisticConnErr is what a net/http client reports when the peer goes away: which of the
// shapes is a function of the request (no draw): the plain sentinel, an EOF, an
// unexpected EOF, a reset or a broken pipe wrapped the way the net package wraps them.
func realisticConnErr(seq int, before bool) error {
	switch seq % 5 {
	case 1:
		return io.EOF
	case 2:
		return io.ErrUnexpectedEOF
	case 3:
		return &net.OpError{Op: "read", Net: "tcp", Err: os.NewSyscallError("read", syscall.ECONNRESET)}
	case 4:
		if before {
			return &net.OpError{Op: "write", Net: "tcp", Err: os.NewSyscallError("write", syscall.EPIPE)}
		}
		return &net.OpError{Op: "read", Net: "tcp", Err: os.NewSyscallError("read", syscall.ECONNRESET)}
	}
	return ErrConn
}

type Handler func(m *Message) (status int, body []byte)

type Net struct {
	S        *sched.Sim
	mu       sync.Mutex
	Handlers map[string]Handler
	Log      []*Message
	delivers int
	// FaultFor is consulted once per exchange at delivery time (on the driver goroutine)
	FaultFor func(m *Message) *Fault
	// OnDeliver is called for every request a service receives (wire invariants)
	OnDeliver func(m *Message)
	Fired     map[string]int
	Overtakes int
	replied   int
}

func NewNet(s *sched.Sim) *Net {
	return &Net{S: s, Handlers: map[string]Handler{}, Fired: map[string]int{}}
}

type Transport struct {
	Net *Net
	Tag string
}

var ErrConn = errors.New("simnet: connection reset by peer")

func hash8(b []byte) string {
	h := sha256.Sum256(b)
	return hex.EncodeToString(h[:4])
}

func (t *Transport) RoundTrip(req *http.Request) (*http.Response, error) {
	n := t.Net
	var body []byte
	if req.Body != nil {
		b, err := io.ReadAll(req.Body)
		req.Body.Close()
		if err != nil {
			return nil, err
		}
		body = b
	}
	url := req.URL.String()
	ct := req.Header.Get("Content-Type")
	hb := body
	if len(ct) > 19 && ct[:19] == "multipart/form-data" {
		// the boundary is random (mime/multipart uses crypto/rand): not part of the identity
		hb = []byte(fmt.Sprintf("multipart:%d", len(body)/64))
	}
	m := &Message{Tag: t.Tag, URL: url, ContentType: ct, Body: body, reply: make(chan *reply, 1)}
	m.Label = fmt.Sprintf("%s|%s|%s", t.Tag, url, hash8(hb))
	n.mu.Lock()
	m.Seq = len(n.Log) + 1
	n.Log = append(n.Log, m)
	n.mu.Unlock()
	if n.S.Down() {
		return nil, ErrConn
	}
	n.S.AddAction(&sched.Action{ID: "net.deliver:" + m.Label, Class: "net.deliver", Fire: func() { n.deliver(m) }})
	select {
	case r := <-m.reply:
		if r.err != nil {
			return nil, r.err
		}
		// the answer arrives the way a socket delivers it: in pieces whose sizes are a function of the
		// answer itself (no draw), the first one short; Content-Length is announced for two answers in
		// three, as net/http does for answers that are not chunked
		h := fnv.New32a()
		h.Write(r.body)
		hv := int(h.Sum32() & 0x7fffffff)
		rd := &Body{Data: r.body, Chunks: []int{1 + hv%23, 1 + (hv>>5)%301, 1 + (hv>>11)%4096}, FailAt: -1}
		if r.readErrAt >= 0 {
			at := r.readErrAt
			if at > len(r.body) {
				at = len(r.body)
			}
			rd.FailAt, rd.FailErr = at, ErrConn
		}
		hdr := http.Header{"Content-Type": []string{"application/json"}}
		cl := int64(-1)
		if m.Seq%3 != 0 {
			cl = int64(len(r.body))
			hdr.Set("Content-Length", strconv.Itoa(len(r.body)))
		}
		return &http.Response{
			StatusCode:    r.status,
			Status:        fmt.Sprintf("%d %s", r.status, http.StatusText(r.status)),
			Header:        hdr,
			ContentLength: cl,
			Body:          rd,
			Request:    req,
			Proto:      "HTTP/1.1", ProtoMajor: 1, ProtoMinor: 1,
		}, nil
	case <-req.Context().Done():
		return nil, req.Context().Err()
	}
}

type errReader struct{}

func (errReader) Read([]byte) (int, error) { return 0, ErrConn }

func (n *Net) fire(kind string) {
	n.Fired[kind]++
}

// deliver runs on the driver goroutine.
func (n *Net) deliver(m *Message) {
	var f *Fault
	if n.FaultFor != nil {
		f = n.FaultFor(m)
	}
	if f != nil {
		m.Fault = f.Kind
	}
	if f != nil && f.Kind == "ErrBefore" {
		n.fire("transport.error-before-service")
		e := f.connErr()
		if f.Err == nil {
			e = realisticConnErr(connErrShape(m), true)
		}
		n.queueReply(m, &reply{err: e, readErrAt: -1})
		return
	}
	h := n.Handlers[m.URL]
	n.delivers++
	m.Delivered = true
	m.DeliverSeq = n.delivers
	if n.OnDeliver != nil {
		n.OnDeliver(m)
	}
	status, body := 502, []byte("no such service")
	if h != nil {
		status, body = h(m)
	}
	r := &reply{status: status, body: body, readErrAt: -1}
	if f != nil {
		switch f.Kind {
		case "ErrAfter":
			n.fire("transport.error-after-service")
			e := f.connErr()
			if f.Err == nil {
				e = realisticConnErr(connErrShape(m), false)
			}
			r = &reply{err: e, readErrAt: -1}
		case "Status":
			n.fire(fmt.Sprintf("transport.status-%d", f.Status))
			r.status, r.body = f.Status, f.Body
		case "StatusKeepBody":
			// the service's (well-formed) answer under a failure status
			n.fire(fmt.Sprintf("transport.status-%d-with-valid-body", f.Status))
			r.status = f.Status
		case "ReadErr":
			n.fire("transport.body-read-error")
			r.readErrAt = f.At
		default:
			if f.Mutate != nil {
				n.fire("answer." + f.Kind)
				r.body = f.Mutate(body)
			}
		}
	}
	m.Status, m.Resp = r.status, r.body
	n.queueReply(m, r)
}

func (n *Net) queueReply(m *Message, r *reply) {
	seq := m.Seq
	n.S.AddAction(&sched.Action{ID: "net.reply:" + m.Label, Class: "net.reply", Fire: func() {
		// an answer overtakes when a request that arrived earlier is still unanswered
		n.mu.Lock()
		for _, o := range n.Log {
			if o.Seq < seq && !o.done() {
				n.Overtakes++
				break
			}
		}
		m.markDone()
		n.mu.Unlock()
		m.reply <- r
	}})
}

func (m *Message) done() bool { return m.answered }
func (m *Message) markDone()  { m.answered = true }

// Route is what a simulated client request carries in its context when the gateway under test
// uses its own default queryers (http.DefaultClient): the sub-requests inherit the context, and
// CtxTransport - installed as http.DefaultClient.Transport for the time of a run - sends them into
// the right simulated network under the right tag.
type Route struct {
	Net *Net
	Tag string
}

type routeKey struct{}

// WithRoute attaches a route to a request context.
func WithRoute(ctx context.Context, r *Route) context.Context {
	return context.WithValue(ctx, routeKey{}, r)
}

// CtxTransport is an http.RoundTripper that delivers through the route found in the request context.
type CtxTransport struct{}

func (CtxTransport) RoundTrip(req *http.Request) (*http.Response, error) {
	r, _ := req.Context().Value(routeKey{}).(*Route)
	if r == nil {
		return nil, errors.New("simnet: request without a route in its context")
	}
	return (&Transport{Net: r.Net, Tag: r.Tag}).RoundTrip(req)
}
