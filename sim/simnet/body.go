package simnet

import (
	"errors"
	"io"
)

// Body is a request body stream that delivers its bytes in the given chunk sizes and can
// fail with an error, or simply end, at a chosen byte.
type Body struct {
	Data    []byte
	Chunks  []int // sizes of successive reads (cycled); empty = as much as asked
	FailAt  int   // >= 0: reading stops there
	FailErr error // error returned at FailAt; nil = early EOF
	pos     int
	nread   int
	Closed  bool
	Reads   int
}

var ErrBodyReset = errors.New("simnet: request body: connection reset by peer")

func (b *Body) Read(p []byte) (int, error) {
	b.Reads++
	limit := len(b.Data)
	if b.FailAt >= 0 && b.FailAt < limit {
		limit = b.FailAt
	}
	if b.pos >= limit {
		if b.FailAt >= 0 && b.FailAt <= len(b.Data) && b.FailErr != nil {
			return 0, b.FailErr
		}
		return 0, io.EOF
	}
	n := len(p)
	if len(b.Chunks) > 0 {
		c := b.Chunks[b.nread%len(b.Chunks)]
		if c < 1 {
			c = 1
		}
		if c < n {
			n = c
		}
	}
	if b.pos+n > limit {
		n = limit - b.pos
	}
	copy(p, b.Data[b.pos:b.pos+n])
	b.pos += n
	b.nread++
	return n, nil
}

func (b *Body) Close() error { b.Closed = true; return nil }
