#!/bin/sh
# usage: evalseed.sh <patch.diff> <prop> [more props...]
# applies a seeded change to /repo, confirms the unedited baseline suite still passes, runs the quick
# checks of the given properties, and ALWAYS restores /repo.
patch=$1; shift
cd /verif
if ! git -C /repo diff --quiet; then echo "/repo has uncommitted changes"; exit 3; fi
trap 'git -C /repo reset -q 2>/dev/null; git -C /repo checkout -- . ; git -C /repo clean -fdq -- . 2>/dev/null' EXIT
git -C /repo apply "$patch" 2>/dev/null || git -C /repo apply --3way "$patch" 2>/dev/null || (git -C /repo reset -q; git -C /repo checkout -- .; cd /repo && patch -p1 --no-backup-if-mismatch -F3 < "$patch" >/dev/null) || { echo "patch does not apply"; exit 3; }
git -C /repo reset -q 2>/dev/null
(cd /repo && GOFLAGS=-mod=mod GOPROXY=off GOSUMDB=off go build ./... && GOFLAGS=-mod=mod GOPROXY=off GOSUMDB=off go test -vet=off -count=1 ./... > /tmp/evalseed-base.log 2>&1; echo "baseline suite exit=$?")
for p in "$@"; do
  echo "== $p"
  bin/simcheck -p $p ${EVAL_ARGS} 2>&1 | grep -v "^built\|^KNOWN-FINDING\|^simcheck property" | cut -c1-260 | tail -8
done
