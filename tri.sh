#!/bin/sh
# triage helper: tri.sh <prop> <count> <features> [from]
export GOFLAGS=-mod=mod GOPROXY=off GOSUMDB=off GOTOOLCHAIN=local
cd /verif/sim
rm -f /tmp/tri.jsonl
go1.26.8 test -tags verif -count=1 -run TestSim . -args -sim.prop=$1 -sim.count=$2 -sim.features="$3" -sim.from=${4:-1} -sim.out=/tmp/tri.jsonl 2>&1 | grep -v "^ok" | head -40
python3 - <<'PY'
import json,collections
rs=[json.loads(l) for l in open('/tmp/tri.jsonl')]
rs=[r for r in rs if 'prop' in r]
print(len(rs), dict(collections.Counter(r['verdict'] for r in rs)), 'nontrivial',sum(r['nontrivial'] for r in rs))
c=collections.Counter(); ex={}
for r in rs:
    for v in r.get('violations') or []:
        c[v['signature']]+=1; ex.setdefault(v['signature'],(r['seed'],v['detail']))
    if r['verdict']=='anomaly': c['ANOM:'+r['anomaly'][:100]]+=1; ex.setdefault('ANOM:'+r['anomaly'][:100],(r['seed'],r['anomaly']))
for k,v in c.most_common(): print(v,k)
import os
n=int(os.environ.get('EX','0'))
for k,(seed,d) in list(ex.items())[:n]:
    print('=====',k,'seed',seed); print(d[:int(os.environ.get('EXLEN','1200'))])
PY
