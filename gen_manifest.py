#!/usr/bin/env python3
# Generates MANIFEST.json from the table below (kept in one place so it stays valid).
import json, subprocess

HOOK_COMMITS = subprocess.run("git -C /repo log --format=%H --grep='^verif hooks'", shell=True, capture_output=True, text=True).stdout.split()

NA_PURE = {
 "C03": "pure function of static schema documents (ExtendMergerFunc.Merge is a deterministic single-goroutine fold, no schedule, clock, I/O, fault or peer); deciding it would be input generation, not simulation - DESIGN.md sec. 4",
 "C04": "pure function of the same static inputs (TypeURLMap.SetFromSchema); nothing for a scheduler or fault injector to decide - DESIGN.md sec. 4",
 "C05": "pure function of the schema list and of a permutation of it; no schedule, time, fault or message involved - DESIGN.md sec. 4",
 "C15": "anchored code is the pure decoding of one JSON document into a schema (introspection/remote.go); the concurrent fan-in is not part of the property - DESIGN.md sec. 4",
 "C16": "IntrospectionResolver is a pure function of (schema, selection, variables) answered locally without any downstream call - DESIGN.md sec. 4",
}

# id -> (category, design_ref, text, note, technique)
CLAIMED = {
 "C20": ("exploration", "3 (C20), 2.3",
   "Seeded search over the interleavings of the real common.AsyncMapReduce (workers, reducer, caller) at the H1 yield points, over list lengths, success/error patterns, map functions that return at once, park, or recurse into AsyncMapReduce; oracle = sequential fold specification, call counters, return-time snapshot, goroutine ledger; process death (panic in a spawned goroutine) is caught by the parent. Sampling, not proof; thorough tier adds the race detector.",
   "Interleavings are explored at yield-point granularity (H1 hooks + harness park points); the model-checking half of the quantifier is not attempted. Trusted: testing/synctest quiescence detection, the harness oracle.",
   "deterministic simulation: seeded scheduler over park/release hooks inside a testing/synctest bubble, sequential-specification oracle"),
}

CLAIMED["C11"] = ("exploration", "3 (C11)",
   "The real queryer.MultiOpQueryer alone on the simulated transport against an echo service: (N, m) pairs over the whole small grid (N=0..13 x m=1..6 quick, 0..40 x 1..12 thorough, boundaries N=k*m, k*m+-1 inside), seeded completion orders of the concurrent chunk calls and of the nested fan-out yields, one or two failing chunk calls (connection error before/after the service, 503, body read error, non-JSON, non-array, element with errors), inputs with file uploads mixed in. Oracle: N results, result i answers request i, every request in exactly one HTTP call (at most one under faults), no call above m, error and nil result when a call failed.",
   "Sampling of the (N,m,schedule,fault) space, pairs drawn from the tape (coverage_points_distinct reports how many of the grid were reached). Trusted: echo service, multipart re-parser of the Go standard library.",
   "deterministic simulation: simulated RoundTripper with per-exchange delivery/reply actions, seeded schedule + fault search, sequential-specification oracle")

FED_NOTE = "Sampling of (world, operation, configuration, schedule) tuples; generated schemas follow pebbles' documented federation contract; operation/schema features that hit an open known finding (known_findings.json) are off in the sampled workload and run only in that finding's dedicated replay. Trusted: the reference executor (shares code with the service executor, none with pebbles), gqlparser."
CLAIMED["C01"] = ("exploration", "3 (C01), 2.5, 2.6",
   "The real gateway (merge -> plan -> execute -> scrub, both mergers, with/without id-to-type hint, plain/caching planner, small and default downstream batch sizes) boots from independently projected service schemas and answers generated operations over simulated services; every answer is compared, after the one tolerated normalisation (pruned empty objects), with a single-server reference executor over the union schema and the same pure data function; errors must be empty. The scheduler decides fan-out worker order, answer delivery order (answers overtake) and plan-step order.",
   FED_NOTE, "deterministic simulation: seeded scheduler + simulated transport, differential oracle against a single-server reference model")
CLAIMED["C02"] = ("exploration", "3 (C02)",
   "Wire invariant on every sub-request delivered to a simulated service during C01-style runs: parses, validates against that service's own schema (gqlparser validator), variables coerce, it is the text of a recorded plan step for that service, and every client variable it uses arrives with the client's value or default. Per translation, on the recorded plan: every client-selected field on a concrete parent is requested from a service that declares it; every extra field is id/__typename and registered for scrubbing.",
   FED_NOTE + " Coverage under abstract parents is decided dynamically by C01.", "deterministic simulation: invariant monitor on the simulated wire + translation check on the recorded plan")
CLAIMED["C12"] = ("exploration", "3 (C12)",
   "History check over the calls observed at the queryer.Queryer seam: per client operation, calls to a service <= number of plan levels at which it appears (worlds skewed to long and uneven lists and 2 entities per type so repeats are the rule); no call carries the same id-only lookup twice; the answer still equals the reference (the de-duplicated result reached every place).",
   FED_NOTE, "deterministic simulation: recorded call history checked against the plan shape, plus differential answer check")
CLAIMED["C13"] = ("exploration", "3 (C13), 2.12",
   "One operation is sent k=8 (thorough 32) times to one gateway, each repetition under a freshly drawn scheduling policy and plan-step permutation (hook H2); a third of the runs poison sub-requests by content so that errors is non-empty. All repetitions must agree on data, on the multiset of errors (message, path, extensions) and on the multiset of sub-requests per service.",
   FED_NOTE + " Go's map iteration inside pebbles cannot be seeded: an order dependence that changes an outcome is caught with probability 1-2^-(k-1) per run.", "deterministic simulation: k-fold repetition under seeded schedule perturbation, agreement oracle")

CLAIMED["C06"] = ("fault_enumeration", "3 (C06)",
   "Generated mutations (1-3 root fields over 1-2 owning services, follow-up lookups elsewhere, worlds with the same root field under Query and Mutation) are executed alone, repeated (plan cache), inside a batch, and once per downstream call site x fault kind (connection error before / after the service, 500, non-JSON, errors answer). History check over what every simulated service received: per owner exactly one mutation request carrying its root fields in client order (at most one always, none at other services), follow-up lookups are queries.",
   FED_NOTE + " Exactly-once is counted on the simulated wire.", "deterministic simulation with single-fault enumeration per call site, wire-history oracle")
CLAIMED["C07"] = ("exploration", "3 (C07)",
   "SCOPE as stated in DESIGN.md: not a fuzzer over byte strings. About 85 structured malformed / edge request kinds (JSON shapes incl. null and arrays of non-objects, wrong member types, multipart layouts and file maps with missing / out-of-range / malformed paths, unknown content types, GraphQL-level invalid operations, abstract type without members, root __typename) and request body streams cut or failing at chosen bytes go through the real handler; oracle: handler returns, response is JSON with data and/or errors, status 422 iff an independent strict decoder rejects the request else 200, invalid operations get errors and data null; every request is followed by a liveness probe that must equal the reference; panics in spawned goroutines kill the child and are seen by the parent.",
   "The universal quantifier over byte strings is not decided (fuzzing is another technique family). net/http's per-connection recover is emulated. Trusted: the strict decoder, the reference executor.", "deterministic simulation: structured malformed workloads + failing request streams + liveness probes, crash capture by the parent process")
CLAIMED["C08"] = ("exploration", "3 (C08)",
   "A batch of 0-6 (thorough 8) operations (queries, mutations, introspection, syntactically and semantically invalid ones, duplicates) is sent to the real gateway under a seeded interleaving of the per-operation workers and answer deliveries, with content-keyed service failures in a third of the runs; a twin gateway answers each element alone. Oracle: array of N results, element i equals its alone answer (data, multiset of errors); valid fault-free elements also equal the reference. Thorough tier runs under the race detector.",
   FED_NOTE, "deterministic simulation: seeded interleaving of batch workers, alone-vs-batch twin oracle")
CLAIMED["C09"] = ("fault_enumeration", "3 (C09), 2.8",
   "Per generated (world, operation): the fault-free run enumerates the downstream call sites; then every fault kind (connection error before/after the service, 500 with body, 404 empty, body read error, non-JSON, non-array, array too short/long, errors with/without partial data, element without data, node key missing / string / number / array, object-for-list, list-for-object, scalar-for-object, non-object list entry, null for a value, entity without id, non-string id, extra keys) x call site (<=5) x batch position is executed as its own request, alone or next to a clean sibling, followed by a clean request. Oracle: no process death, no hang, status 200 well-formed, errors non-empty for failure signals, every scalar in data occurs in some service answer for that operation, sibling and later requests equal the reference.",
   FED_NOTE + " Single faults are exhaustive per operation up to 5 sites / 700 cases; sequences only via sibling / follow-up requests. A service that never answers is not modelled.", "deterministic simulation with fault enumeration (fault kind x plan step x batch position)")
CLAIMED["C10"] = ("exploration", "3 (C10)",
   "Invalid mutants of generated valid operations (about 20 single-edit kinds, kept only when gqlparser rejects them or the operation cannot be selected) must be answered by the gateway alone: data null, errors non-empty, no message on the simulated wire and no entry in any service effect log. Service error payloads injected at every call site (1 or 3 errors, one or two batch elements, nested extensions, mixed path, locations, with and without partial data) must each appear in the client's errors with equal message, extensions and path.",
   FED_NOTE, "deterministic simulation: wire-silence oracle for rejected inputs, error pass-through oracle under injected service errors")
CLAIMED["C14"] = ("exploration", "3 (C14)",
   "Twin gateways over one world - caching planner (TTL 0, 1ns, 1s, 1h) and plain planner - run the same drawn request history: a pool built to collide on the cache key (same selection under the other operation type, renamed operation, other variable values, unrelated operations), as singles, batches (concurrent planning) and overlapping clients, with gaps around the TTL on the simulated clock. Oracle: request by request the cached gateway's answer equals the plain twin's. Thorough tier: race detector.",
   FED_NOTE + " Subscriptions sharing a cached plan are covered by C17's configuration, not here.", "deterministic simulation: cached-vs-plain twin over request histories with simulated clock jumps")

CLAIMED["C19"] = ("exploration", "3 (C19)",
   "Generated GraphQL multipart requests (single / batched, 1-4 files of 0 B..64 KiB, names with spaces, quotes, unicode; files at top level, in lists with holes, in nested input objects, in lists of input objects, one file at two paths, one variables object used by two root fields; truncated upload streams) travel through the real parse -> plan -> execute -> multipart re-encoding path to simulated services that re-parse the request they get. Oracle: data equals the reference (payloads echo name, size and checksum of every file received); per receiving service the forwarded map sends the client's paths to parts with the same file name and bytes and the JSON variables are null exactly there; services whose sub-request uses no file variable get plain JSON; a truncated upload is a 422 and reaches no service. Thorough tier: race detector.",
   FED_NOTE, "deterministic simulation: round-trip oracle on the re-parsed multipart wire message + differential answer check")

SUB_NOTE = "Sampling of (histories, schedule) tuples at the granularity of the hook yield points, connection writes and segment deliveries. Trusted: testing/synctest quiescence and fake clock, the simulated connection (Write = one atomic append, as net.Conn guarantees), the reference executor."
CLAIMED["C17"] = ("exploration", "3 (C17)",
   "Simulated websocket clients (1-2 connections, 1-3 subscriptions each, incl. identical subscriptions and the caching planner) talk to the real subscription handler, which runs the real Subscribe against simulated upstream graphql-ws nodes; each upstream follows a script of events, error frames, keep-alives and complete. The scheduler interleaves upstream emissions, the per-event stitch calls on the HTTP leg, every connection write and delivery (split deliveries), and clock ticks that fire heartbeats. Oracle: every received byte parses into protocol frames; per subscription id the data frames equal, in order and count, the reference's answer for every emitted event (fully stitched, helper fields removed, errors empty) and every upstream error frame arrives as errors under that id.",
   SUB_NOTE, "deterministic simulation: seeded scheduler over real subscription code between simulated websocket peers, ordered-event-list oracle from the single-server reference")
CLAIMED["C18"] = ("exploration", "3 (C18)",
   "Seeded search over the teardown interleavings of the real handler / Listen / Close / upstream reader / closer / heartbeat goroutines (hook H4 and H3 yield points, every connection write and delivery, clock ticks), with policies that hold open or rush one narrow window per run, under client histories (init twice, start, duplicate start, start without payload, stop, stop twice, stop unknown, terminate, close frame, close without close frame, reset, non-JSON, binary, unknown type) and upstream histories (ack, never-ack, events, error, bad JSON, unknown type, complete, connection_error, disconnect, dial refused, reset during handshake). Oracle: the process survives (parent sees panics / fatal errors), no handler panic, every handler returns and every upstream connection is closed within 60 simulated seconds after the clients are gone, every received byte parses into complete protocol frames, no hook-announced goroutine stays alive. Thorough tier: race detector.",
   SUB_NOTE + " The model-checking half of the quantifier is not attempted.", "deterministic simulation with fault injection: seeded schedule search over teardown yield points under client/upstream fault histories, liveness and leak oracles, crash capture")

PENDING = {}  # id -> reason while a check is not built yet

def main():
    props = [json.loads(l) for l in open("properties.jsonl")]
    checks = []
    na = []
    for p in props:
        pid = p["id"]
        if pid in CLAIMED:
            cat, ref, text, note, tech = CLAIMED[pid]
            checks.append({
                "property_id": pid,
                "quick_cmd": f"bin/simcheck -p {pid} -tier quick",
                "thorough_cmd": f"bin/simcheck -p {pid} -tier thorough",
                "evidence_file": f"/verif/evidence/{pid}.json",
                "replay_cmd_template": "bin/simcheck -replay {path}",
                "engine": "simcheck",
                "level_claimed": {"category": cat, "text": text, "design_ref": ref},
                "level_note": note,
                "technique": tech,
            })
        elif pid in NA_PURE:
            na.append({"property_id": pid, "reason": NA_PURE[pid]})
        else:
            na.append({"property_id": pid, "reason": PENDING.get(pid, "check not built yet in this session; planned scenario described in DESIGN.md sec. 3 - not claimed until it runs")})
    m = {
        "version": 1,
        "setup_cmd": "./setup.sh",
        "hooks": {
            "guard": "verif",
            "enable": "go1.26.8 test -c -tags verif (harness module /verif/sim has `replace github.com/buildbuildio/pebbles => /repo`, so /repo's working tree is compiled with the tag on); a second binary is built the same way against a scratch copy of the working tree under /verif/.build/auto in which package sim/autoyield has inserted simhook.Auto(site) before every statement and swapped sync.Mutex/RWMutex for simhook.Mutex/RWMutex",
            "baseline_off_cmd": "cd /repo && go test -vet=off -count=1 ./...",
            "source_commits": HOOK_COMMITS,
            "add_only": True,
        },
        "engines": [{
            "name": "simcheck",
            "path": "/verif/sim (Go module: tape, sched, simnet, gql, scen, run_test.go) + /verif/sim/cmd/simcheck (parent driver)",
            "serves_properties": sorted(CLAIMED),
            "kind_free_text": "deterministic simulation with fault injection: real gateway code inside a testing/synctest bubble, every scheduling / network / fault decision drawn from one seeded choice tape; parent process captures crashes, shrinks tapes, replays. Each check runs two phases: the plain build (hand-placed yields) and a machine-instrumented build (an interleaving point before every statement, simulator-visible mutexes, seeded preemption)",
        }],
        "checks": checks,
        "not_applicable": na,
        "notes": "All commands run with cwd=/verif. VERIF_SEED selects the seed block, VERIF_TIER or -tier the tier. Known findings: /verif/known_findings.json. Replay: bin/simcheck -replay <file>. Determinism self-test: bin/simcheck -p <id> -determinism. Seeded changes: /verif/seeded/<id>/ (regress.sh re-evaluates them).",
    }
    json.dump(m, open("MANIFEST.json", "w"), indent=1)
    print("wrote MANIFEST.json:", len(checks), "checks,", len(na), "not claimed")

main()
