module verif/autoyield

go 1.26.8

require golang.org/x/tools v0.50.0

require (
	golang.org/x/mod v0.41.0 // indirect
	golang.org/x/sync v0.23.0 // indirect
)
