// autoyield rewrites a scratch copy of the module under test in place:
//
//   - before every statement of every function body it inserts simhook.Auto("<file>:<line>"),
//     an interleaving point the simulator may or may not stop at;
//   - sync.Mutex / sync.RWMutex become simhook.Mutex / simhook.RWMutex, which park a goroutine
//     that would block in the simulator instead of in the runtime (a goroutine stopped at an
//     inserted point while holding a lock would otherwise stall the others outside the
//     simulator's view);
//   - `for k, v := range m` over a Go map becomes a loop over simhook.MapKeys(m, site): the keys in
//     an order the simulator decides (a pure function of the run's salt), instead of the runtime's
//     random one. The order of map iteration is a source of nondeterminism inside the code under
//     test; this is its seam.
//
// Test files, the simhook package itself and files without function bodies are left alone.
//
// usage: autoyield <module dir> <module path>
package main

import (
	"bytes"
	"fmt"
	"go/ast"
	"go/format"
	"go/token"
	"go/types"
	"os"
	"path/filepath"
	"strconv"
	"strings"

	"golang.org/x/tools/go/packages"
)

func main() {
	if len(os.Args) != 3 {
		fmt.Fprintln(os.Stderr, "usage: autoyield <module dir> <module path>")
		os.Exit(2)
	}
	root, mod := os.Args[1], os.Args[2]
	files, sites, maps, err := instrument(root, mod)
	if err != nil {
		fmt.Fprintln(os.Stderr, "autoyield:", err)
		os.Exit(1)
	}
	fmt.Printf("autoyield: %d interleaving points, %d map loops in %d files\n", sites, maps, files)
}

func instrument(root, mod string) (files, sites, maps int, err error) {
	cfg := &packages.Config{
		Mode:       packages.NeedName | packages.NeedFiles | packages.NeedSyntax | packages.NeedTypes | packages.NeedTypesInfo | packages.NeedImports | packages.NeedDeps,
		Dir:        root,
		BuildFlags: []string{"-tags=verif"},
		Tests:      false,
	}
	pkgs, err := packages.Load(cfg, "./...")
	if err != nil {
		return 0, 0, 0, err
	}
	for _, p := range pkgs {
		if len(p.Errors) > 0 {
			return 0, 0, 0, fmt.Errorf("package %s does not type-check: %v", p.PkgPath, p.Errors[0])
		}
		if p.PkgPath == mod+"/simhook" {
			continue
		}
		for _, f := range p.Syntax {
			path := p.Fset.Position(f.Pos()).Filename
			if !strings.HasSuffix(path, ".go") || strings.HasSuffix(path, "_test.go") {
				continue
			}
			rel, rerr := filepath.Rel(root, path)
			if rerr != nil || strings.HasPrefix(rel, "..") {
				continue
			}
			n, m, werr := rewrite(p.Fset, f, p.TypesInfo, path, rel, mod)
			if werr != nil {
				return 0, 0, 0, fmt.Errorf("%s: %v", rel, werr)
			}
			if n > 0 || m > 0 {
				files++
				sites += n
				maps += m
			}
		}
	}
	return
}

func rewrite(fset *token.FileSet, f *ast.File, info *types.Info, path, rel, mod string) (int, int, error) {
	// the name the file uses for package sync (none if it does not import it)
	syncName := ""
	hasSimhook := false
	for _, im := range f.Imports {
		p, _ := strconv.Unquote(im.Path.Value)
		if p == "sync" {
			syncName = "sync"
			if im.Name != nil {
				syncName = im.Name.Name
			}
		}
		if p == mod+"/simhook" && im.Name == nil {
			hasSimhook = true
		}
	}
	sites, swapped, maps := 0, 0, 0
	siteOf := func(pos token.Pos) string { return fmt.Sprintf("%s:%d", rel, fset.Position(pos).Line) }
	yield := func(pos token.Pos) ast.Stmt {
		sites++
		return &ast.ExprStmt{X: &ast.CallExpr{
			Fun:  &ast.SelectorExpr{X: ast.NewIdent("simhook"), Sel: ast.NewIdent("Auto")},
			Args: []ast.Expr{&ast.BasicLit{Kind: token.STRING, Value: strconv.Quote(siteOf(pos))}},
		}}
	}
	instr := func(list []ast.Stmt) []ast.Stmt {
		out := make([]ast.Stmt, 0, 2*len(list))
		for i, st := range list {
			// a hand-placed yield guards the statement that follows it: nothing in between
			if i > 0 && isHandYield(list[i-1]) || !st.Pos().IsValid() {
				// (statements the rewrite itself made have no position)
				out = append(out, st)
				continue
			}
			out = append(out, yield(st.Pos()), st)
		}
		return out
	}
	ast.Inspect(f, func(n ast.Node) bool {
		if x, ok := n.(*ast.SelectorExpr); ok {
			// sync.Mutex / sync.RWMutex as a type expression
			if id, ok := x.X.(*ast.Ident); ok && syncName != "" && id.Name == syncName && (x.Sel.Name == "Mutex" || x.Sel.Name == "RWMutex") {
				if pn, ok := info.Uses[id].(*types.PkgName); ok && pn.Imported().Path() == "sync" {
					id.Name = "simhook"
					swapped++
				}
			}
		}
		return true
	})
	// map loops first (on the original statements), then the interleaving points
	mapLoop := func(rs *ast.RangeStmt) {
		if rs.Key == nil || rs.Tok != token.DEFINE {
			return
		}
		tv, ok := info.Types[rs.X]
		if !ok {
			return
		}
		mt, ok := tv.Type.Underlying().(*types.Map)
		if !ok {
			return
		}
		// the key type must be usable as a sort key through fmt (everything comparable is) and the
		// ranged expression must be a plain operand we may evaluate twice
		switch rs.X.(type) {
		case *ast.Ident, *ast.SelectorExpr:
		default:
			return
		}
		_ = mt
		keyID, ok := rs.Key.(*ast.Ident)
		if !ok {
			return
		}
		maps++
		keyName := keyID.Name
		if keyName == "_" {
			keyName = "simhookKey"
		}
		// for _, k := range simhook.MapKeys(m, site) { v, ok := m[k]; if !ok { continue }; body }
		var pre []ast.Stmt
		if rs.Value != nil {
			if vid, ok := rs.Value.(*ast.Ident); ok && vid.Name != "_" {
				pre = append(pre, &ast.AssignStmt{
					Lhs: []ast.Expr{ast.NewIdent(vid.Name), ast.NewIdent("simhookOK")},
					Tok: token.DEFINE,
					Rhs: []ast.Expr{&ast.IndexExpr{X: rs.X, Index: ast.NewIdent(keyName)}},
				})
			} else {
				pre = append(pre, &ast.AssignStmt{
					Lhs: []ast.Expr{ast.NewIdent("_"), ast.NewIdent("simhookOK")},
					Tok: token.DEFINE,
					Rhs: []ast.Expr{&ast.IndexExpr{X: rs.X, Index: ast.NewIdent(keyName)}},
				})
			}
		} else {
			pre = append(pre, &ast.AssignStmt{
				Lhs: []ast.Expr{ast.NewIdent("_"), ast.NewIdent("simhookOK")},
				Tok: token.DEFINE,
				Rhs: []ast.Expr{&ast.IndexExpr{X: rs.X, Index: ast.NewIdent(keyName)}},
			})
		}
		// an entry deleted during the iteration is not produced (as with the built-in loop)
		pre = append(pre, &ast.IfStmt{
			Cond: &ast.UnaryExpr{Op: token.NOT, X: ast.NewIdent("simhookOK")},
			Body: &ast.BlockStmt{List: []ast.Stmt{&ast.BranchStmt{Tok: token.CONTINUE}}},
		})
		site := siteOf(rs.Pos())
		rs.Value = ast.NewIdent(keyName)
		rs.Key = ast.NewIdent("_")
		rs.X = &ast.CallExpr{
			Fun:  &ast.SelectorExpr{X: ast.NewIdent("simhook"), Sel: ast.NewIdent("MapKeys")},
			Args: []ast.Expr{rs.X, &ast.BasicLit{Kind: token.STRING, Value: strconv.Quote(site)}},
		}
		rs.Body.List = append(pre, rs.Body.List...)
	}
	// labelled continue inside a rewritten loop still refers to the same loop: nothing to do
	inFunc := 0
	clauseLists := map[*ast.BlockStmt]bool{} // bodies of switch / select: lists of clauses, not of statements
	var walk func(n ast.Node)
	walk = func(n ast.Node) {
		ast.Inspect(n, func(n ast.Node) bool {
			switch x := n.(type) {
			case *ast.FuncDecl:
				if x.Body == nil || x.Name.Name == "init" {
					return false
				}
				inFunc++
			case *ast.RangeStmt:
				if inFunc > 0 {
					mapLoop(x)
				}
			case *ast.SwitchStmt:
				clauseLists[x.Body] = true
			case *ast.TypeSwitchStmt:
				clauseLists[x.Body] = true
			case *ast.SelectStmt:
				clauseLists[x.Body] = true
			case *ast.BlockStmt:
				if inFunc > 0 && !clauseLists[x] {
					x.List = instr(x.List)
				}
			case *ast.CaseClause:
				if inFunc > 0 {
					x.Body = instr(x.Body)
				}
			case *ast.CommClause:
				if inFunc > 0 {
					x.Body = instr(x.Body)
				}
			}
			return true
		})
	}
	for _, d := range f.Decls {
		if fd, ok := d.(*ast.FuncDecl); ok {
			inFunc = 0
			walk(fd)
		}
	}
	if sites == 0 && swapped == 0 && maps == 0 {
		return 0, 0, nil
	}
	if !hasSimhook {
		spec := &ast.ImportSpec{Path: &ast.BasicLit{Kind: token.STRING, Value: strconv.Quote(mod + "/simhook")}}
		added := false
		for _, d := range f.Decls {
			if gd, ok := d.(*ast.GenDecl); ok && gd.Tok == token.IMPORT {
				gd.Specs = append(gd.Specs, spec)
				if len(gd.Specs) > 1 && !gd.Lparen.IsValid() {
					gd.Lparen = gd.Pos()
				}
				added = true
				break
			}
		}
		if !added {
			f.Decls = append([]ast.Decl{&ast.GenDecl{Tok: token.IMPORT, Specs: []ast.Spec{spec}}}, f.Decls...)
		}
	}
	var buf bytes.Buffer
	if err := format.Node(&buf, fset, f); err != nil {
		return 0, 0, err
	}
	src := buf.String()
	if swapped > 0 && syncName != "" {
		// keep the sync import in use whatever else the file takes from it
		src += "\nvar _ " + syncName + ".Locker\n"
	}
	if sites == 0 && maps == 0 {
		// only types were swapped: the simhook import must be used
		src += "\nvar _ = simhook.Enabled\n"
	}
	return sites, maps, os.WriteFile(path, []byte(src), 0o644)
}

func isHandYield(st ast.Stmt) bool {
	es, ok := st.(*ast.ExprStmt)
	if !ok {
		return false
	}
	call, ok := es.X.(*ast.CallExpr)
	if !ok {
		return false
	}
	sel, ok := call.Fun.(*ast.SelectorExpr)
	if !ok {
		return false
	}
	id, ok := sel.X.(*ast.Ident)
	return ok && id.Name == "simhook" && (sel.Sel.Name == "Yield" || sel.Sel.Name == "YieldOn")
}
