#!/bin/sh
# runs every registered quick check as MANIFEST.json registers it (evidence files are rewritten) and validates
cd /verif
./setup.sh >/dev/null || exit 2
rc=0
for cmd in $(python3 -c "
import json
for c in json.load(open('MANIFEST.json'))['checks']: print(c['quick_cmd'].replace(' ','#'))"); do
  c=$(echo "$cmd" | tr '#' ' ')
  out=$($c 2>&1); e=$?
  echo "$c -> exit $e : $(echo "$out" | grep '^runs=' | tail -1)"
  echo "$out" | grep "^VIOLATION\|^INFRA\|^HARNESS\|^STALE\|^NON-REPRO" | head -5
  [ $e -ne 0 ] && rc=1
done
python3-vt tools_validate.py | tail -3
exit $rc
