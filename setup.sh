#!/bin/sh
# builds the parent driver; the simulation test binary itself is rebuilt by every check
set -e
cd "$(dirname "$0")"
export GOFLAGS=-mod=mod GOPROXY=off GOSUMDB=off GOTOOLCHAIN=local
GO=go1.26.8
command -v $GO >/dev/null 2>&1 || GO=/opt/veriftools/go1.26.8/bin/go
mkdir -p bin .build evidence replays
(cd sim && $GO build -o ../bin/simcheck ./cmd/simcheck)
(cd autoyield && $GO build -o ../bin/autoyield .)
echo "setup ok"
