#!/bin/sh
# usage: regress.sh [seed-ids...]   - re-evaluates seeded changes against the current checks and compares
# with the caught_by recorded in seeded/<id>/meta.json. REPO (default /repo) is the tree the patches are
# applied to and restored in; run it on a snapshot (vp run --with-repo) to leave /repo alone.
REPO=${REPO:-/repo}
cd "$(dirname "$0")"
export GOFLAGS=-mod=mod GOPROXY=off GOSUMDB=off GOTOOLCHAIN=local
if [ "$REPO" != /repo ]; then (cd sim && go1.26.8 mod edit -replace github.com/buildbuildio/pebbles=$REPO); fi
[ -x bin/simcheck ] || ./setup.sh >/dev/null
ids="$@"; [ -z "$ids" ] && ids=$(ls seeded)
fail=0
for id in $ids; do
  d=seeded/$id
  patch=$d/patch.diff; [ -f $d/patch.rebased.diff ] && patch=$d/patch.rebased.diff
  props=$(python3 -c "import json;print(' '.join(json.load(open('$d/meta.json')).get('caught_by',[])[:1]))")
  [ -z "$props" ] && { echo "$id: no caught_by recorded, skipped"; continue; }
  git -C $REPO diff --quiet || { echo "$REPO has uncommitted changes"; exit 3; }
  ( git -C $REPO apply $PWD/$patch 2>/dev/null || git -C $REPO apply --3way $PWD/$patch 2>/dev/null || (git -C $REPO reset -q; git -C $REPO checkout -- .; cd $REPO && patch -p1 --no-backup-if-mismatch -F3 < $OLDPWD/$patch >/dev/null 2>&1) ) || { echo "$id: PATCH DOES NOT APPLY"; git -C $REPO reset -q; git -C $REPO checkout -- .; git -C $REPO clean -fdq; fail=1; continue; }
  git -C $REPO reset -q
  for p in $props; do
    out=$(bin/simcheck -p $p -noshrink 2>&1 | tail -1)
    case "$out" in *exit=1*) echo "$id: caught by $p";; *) echo "$id: NOT CAUGHT by $p ($out)"; fail=1;; esac
  done
  git -C $REPO checkout -- .; git -C $REPO clean -fdq
done
rm -f replays/C[0-9]*.json
exit $fail
