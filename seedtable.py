#!/usr/bin/env python3
# regenerates the table of section 12 of DESIGN.md from seeded/*/meta.json
import json,glob,os,re
rows=[]
for p in sorted(glob.glob('/verif/seeded/*/meta.json')):
    sid=os.path.basename(os.path.dirname(p))
    m=json.load(open(p))
    summ=re.sub(r'\s+',' ',m.get('summary','')).replace('|','/')[:150]
    notes=m.get('notes','')
    first_missed='yes' if ('first missed' in notes or 'strengthen' in notes.lower() or 'missed' in notes.lower() and 'afterwards' in notes.lower()) else 'no'
    rows.append(f"| {sid} | {m['property']} | {summ} | {', '.join(m.get('caught_by',[])) or '-'} | {', '.join(m.get('not_caught_by',[])) or '-'} | {first_missed} |")
hdr="| seed | property | change (one line) | caught by (quick tier) | ran, not caught by | needed a strengthening first |\n|---|---|---|---|---|---|\n"
d=open('/verif/DESIGN.md').read()
a=d.index('| seed | property |')
b=d.index('\n\n',a)
d=d[:a]+hdr+'\n'.join(rows)+d[b:]
open('/verif/DESIGN.md','w').write(d)
print(len(rows),'rows')
