#!/bin/sh
# usage: confirmseed.sh <worktree> <seed-id>   (reads <worktree>/_seed/meta.json for demo_cmd)
# confirms: builds, existing suite passes (demo excluded), demo fails with the change, passes without.
wt=$1; id=$2
export GOFLAGS=-mod=mod GOPROXY=off GOSUMDB=off
cd $wt || exit 3
cmd=$(python3 -c "import json;print(json.load(open('_seed/meta.json'))['demo_cmd'])")
echo "demo_cmd: $cmd"
go build ./... && echo "builds=ok"
go test -vet=off -count=1 -skip 'ZZDemo|Demo' ./... > /tmp/confirm-suite.log 2>&1; echo "existing suite exit=$? ($(grep -c '^ok' /tmp/confirm-suite.log) packages ok)"
sh -c "$cmd" > /tmp/confirm-with.log 2>&1; echo "demo WITH change exit=$? (want != 0)"
git apply -R _seed/patch.diff || { echo "cannot revert patch"; exit 3; }
sh -c "$cmd" > /tmp/confirm-without.log 2>&1; echo "demo WITHOUT change exit=$? (want 0)"
git apply _seed/patch.diff
mkdir -p /verif/seeded/$id && cp -r _seed/* /verif/seeded/$id/
